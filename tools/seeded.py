#!/usr/bin/env python3
"""Seeded-change bookkeeping.
  seeded.py verify  <out-dir> <A|B>            confirm a sub-agent's change: demo passes on pristine tree, fails with the
                                              patch, pinned tests still pass with the patch (scratch worktree, removed after)
  seeded.py adopt   <out-dir> <A|B> <ID> <n>   copy into /verif/seeded/<ID>-<n>/ (patch.diff, demo.py, meta.json skeleton)
  seeded.py run     <seeded-dir> [checks...]   apply patch to a scratch copy of /repo/src and run the checks (default: the
                                              property's own check); prints caught / MISSED
"""
import json, os, shutil, subprocess, sys, tempfile

REPO = '/repo'
VERIF = os.path.dirname(os.path.dirname(os.path.abspath(__file__)))


def sh(cmd, **kw):
    return subprocess.run(cmd, shell=isinstance(cmd, str), capture_output=True, text=True, **kw)


def verify(out, which):
    patch = os.path.join(out, f'patch_{which}.diff')
    demo = os.path.join(out, f'demo_{which}.py')
    wt = tempfile.mkdtemp(prefix='seedwt-')
    os.rmdir(wt)
    res = {}
    try:
        r = sh(['git', '-C', REPO, 'worktree', 'add', '-q', '--detach', wt, 'HEAD'])
        assert r.returncode == 0, r.stderr
        env = dict(os.environ, PYTHONPATH=f'{wt}/src')
        text = open(demo).read()
        # demos were written against the agent's worktree path: retarget
        import re
        text2 = re.sub(r'/tmp/wt-C\d\d', wt, text)
        dpath = os.path.join(wt, '_demo.py')
        open(dpath, 'w').write(text2)
        r0 = sh(['/venv/bin/python', dpath], cwd=wt, env=env)
        res['pristine_demo_exit'] = r0.returncode
        ra = sh(['git', '-C', wt, 'apply', os.path.abspath(patch)])
        res['apply'] = ra.returncode
        if ra.returncode != 0:
            res['apply_err'] = ra.stderr[-300:]
            return res
        r1 = sh(['/venv/bin/python', dpath], cwd=wt, env=env)
        res['patched_demo_exit'] = r1.returncode
        res['patched_demo_tail'] = (r1.stdout + r1.stderr)[-300:]
        os.remove(dpath)
        rt = sh(['/venv/bin/python', '-m', 'pytest', '-q', '-p', 'no:cacheprovider', 'tests'], cwd=wt, env=env)
        res['tests_tail'] = rt.stdout.strip().splitlines()[-1] if rt.stdout.strip() else rt.stderr[-200:]
        res['tests_exit'] = rt.returncode
        res['ok'] = res['pristine_demo_exit'] == 0 and res['patched_demo_exit'] != 0 and res['tests_exit'] == 0
        return res
    finally:
        sh(['git', '-C', REPO, 'worktree', 'remove', '--force', wt])
        shutil.rmtree(wt, ignore_errors=True)


def adopt(out, which, pid, n):
    d = os.path.join(VERIF, 'seeded', f'{pid}-{n}')
    os.makedirs(d, exist_ok=True)
    shutil.copy(os.path.join(out, f'patch_{which}.diff'), os.path.join(d, 'patch.diff'))
    shutil.copy(os.path.join(out, f'demo_{which}.py'), os.path.join(d, 'demo.py'))
    notes = ''
    if os.path.exists(os.path.join(out, 'notes.md')):
        notes = open(os.path.join(out, 'notes.md')).read()
    meta = {'property': pid, 'variant': which, 'needs': '', 'notes_from_author': notes[:4000], 'verified': None, 'checks': {}}
    mp = os.path.join(d, 'meta.json')
    if not os.path.exists(mp):
        json.dump(meta, open(mp, 'w'), indent=1)
    return d


def run(sdir, checks):
    meta = json.load(open(os.path.join(sdir, 'meta.json')))
    checks = checks or [meta.get('detecting_check') or meta['property']]
    d = tempfile.mkdtemp(prefix='seedrun-')
    try:
        shutil.copytree(os.path.join(REPO, 'src'), d + '/src', ignore=shutil.ignore_patterns('__pycache__'))
        r = sh(['patch', '-p1', '-s', '-d', d, '-i', os.path.abspath(os.path.join(sdir, 'patch.diff'))])
        if r.returncode != 0:
            print('patch failed', r.stdout, r.stderr)
            return 2
        out = {}
        for c in checks:
            rr = sh([os.path.join(VERIF, 'vcheck'), c, '--no-evidence'], env=dict(os.environ, NDN_REPO=d))
            lines = [l for l in rr.stdout.splitlines() if 'conda' not in l]
            sig = next((l.strip() for l in lines if l.strip().startswith('signature:')), '')
            out[c] = {'exit': rr.returncode, 'signature': sig}
            print(f'{os.path.basename(sdir)} [{c}] exit={rr.returncode} {"caught" if rr.returncode == 1 else "MISSED" if rr.returncode == 0 else "HARNESS-ERROR"} {sig}')
            if rr.returncode == 2:
                print(rr.stderr[-800:])
        meta.setdefault('checks', {}).update(out)
        json.dump(meta, open(os.path.join(sdir, 'meta.json'), 'w'), indent=1)
        return 0
    finally:
        shutil.rmtree(d, ignore_errors=True)


def matrix(seeds):
    """Every seeded change x VERIF_SEED values -> seeded/MATRIX.md (detection robustness)."""
    import glob
    from concurrent.futures import ThreadPoolExecutor
    dirs = sorted(glob.glob(os.path.join(VERIF, 'seeded', 'C*-*')))

    def one(args):
        sdir, seed = args
        meta = json.load(open(os.path.join(sdir, 'meta.json')))
        d = tempfile.mkdtemp(prefix='seedmx-')
        try:
            shutil.copytree(os.path.join(REPO, 'src'), d + '/src', ignore=shutil.ignore_patterns('__pycache__'))
            pr = sh(['patch', '-p1', '-s', '-d', d, '-i', os.path.abspath(os.path.join(sdir, 'patch.diff'))])
            if pr.returncode != 0:
                return os.path.basename(sdir), seed, 'patch-does-not-apply'
            rr = sh([os.path.join(VERIF, 'vcheck'), meta.get('detecting_check') or meta['property'], '--no-evidence', '--seed', str(seed), '--shards', '6'],
                    env=dict(os.environ, NDN_REPO=d))
            if seed == seeds[0]:
                # refresh the recorded detection (signature of the first violation) in meta.json
                chk = meta.get('detecting_check') or meta['property']
                sig = next((ln.strip() for ln in rr.stdout.splitlines() if ln.strip().startswith('signature:')), '')
                meta.setdefault('checks', {})[chk] = {'exit': rr.returncode, 'signature': sig}
                json.dump(meta, open(os.path.join(sdir, 'meta.json'), 'w'), indent=1)
            return os.path.basename(sdir), seed, rr.returncode
        finally:
            shutil.rmtree(d, ignore_errors=True)
    dirs = [d for d in dirs if not json.load(open(os.path.join(d, 'meta.json'))).get('obsolete')
            and not json.load(open(os.path.join(d, 'meta.json'))).get('not_covered')]
    jobs = [(d, s) for d in dirs for s in seeds]
    res = {}
    with ThreadPoolExecutor(max_workers=int(os.environ.get('MATRIX_JOBS', '2'))) as ex:
        for name, seed, rc in ex.map(one, jobs):
            res.setdefault(name, {})[seed] = rc
            print(name, seed, rc, flush=True)
    lines = ['# Seeded changes x seeds (quick tier): 1 = VIOLATION reported, 0 = missed, 2 = harness error', '',
             '| change | ' + ' | '.join(f'seed {s}' for s in seeds) + ' |', '|---|' + '---|' * len(seeds)]
    for name in sorted(res):
        lines.append(f'| {name} | ' + ' | '.join(str(res[name].get(s, '')) for s in seeds) + ' |')
    missed = sum(1 for n in res for s in seeds if res[n].get(s) != 1)
    lines += ['', f'{len(res)} changes x {len(seeds)} seeds = {len(res) * len(seeds)} runs, {missed} not caught.']
    open(os.path.join(VERIF, 'seeded', 'MATRIX.md'), 'w').write('\n'.join(lines) + '\n')
    print(lines[-1])


if __name__ == '__main__':
    cmd = sys.argv[1]
    if cmd == 'matrix':
        matrix([int(x) for x in sys.argv[2:]] or [1, 2, 3])
        sys.exit(0)
    if cmd == 'verify':
        print(json.dumps(verify(sys.argv[2], sys.argv[3]), indent=1))
    elif cmd == 'adopt':
        print(adopt(sys.argv[2], sys.argv[3], sys.argv[4], sys.argv[5]))
    elif cmd == 'run':
        sys.exit(run(sys.argv[2], sys.argv[3:]))
