#!/usr/bin/env python3
"""Sensitivity helper: apply one textual edit (or a patch file) to a scratch copy of /repo/src and run checks on it.
usage: mut.py --file REL --old OLD --new NEW [--count N] -- C01 [C02 ...] [--only sub]
       mut.py --patch FILE -- C01
Scratch copy lives under /tmp and is removed afterwards.  Exit 0 if every listed check reported a VIOLATION."""
import argparse, os, shutil, subprocess, sys, tempfile
ap = argparse.ArgumentParser()
ap.add_argument('--file'); ap.add_argument('--old'); ap.add_argument('--new'); ap.add_argument('--count', type=int, default=1)
ap.add_argument('--patch'); ap.add_argument('--tier', default='quick'); ap.add_argument('--seed', default='1')
ap.add_argument('--only'); ap.add_argument('--keep', action='store_true')
ap.add_argument('checks', nargs='+')
a = ap.parse_args()
d = tempfile.mkdtemp(prefix='mut-')
try:
    shutil.copytree('/repo/src', d + '/src', ignore=shutil.ignore_patterns('__pycache__'))
    if a.patch:
        subprocess.check_call(['patch', '-p1', '-s', '-d', d, '-i', os.path.abspath(a.patch)])
    else:
        p = os.path.join(d, 'src/ndn', a.file)
        s = open(p).read()
        if s.count(a.old) < 1:
            sys.exit(f'old text not found in {a.file}')
        if s.count(a.old) != a.count:
            print(f'warning: old text occurs {s.count(a.old)}x')
        open(p, 'w').write(s.replace(a.old, a.new))
    ok = True
    for c in a.checks:
        cmd = ['/verif/vcheck', c, '--tier', a.tier, '--seed', a.seed, '--no-evidence'] + (['--only', a.only] if a.only else [])
        r = subprocess.run(cmd, env=dict(os.environ, NDN_REPO=d), capture_output=True, text=True)
        lines = [l for l in r.stdout.splitlines() if 'conda' not in l]
        print(f'[{c}] exit={r.returncode}', '|', ' | '.join(lines[-4:])[:700])
        if r.returncode == 2:
            print(r.stderr[-1500:])
        ok = ok and r.returncode == 1
    sys.exit(0 if ok else 3)
finally:
    if not a.keep:
        shutil.rmtree(d, ignore_errors=True)
