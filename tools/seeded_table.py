#!/usr/bin/env python3
"""Regenerate the table of seeded changes at the end of DESIGN.md from seeded/*/meta.json."""
import glob, json, os, re
V = os.path.dirname(os.path.dirname(os.path.abspath(__file__)))
rows = []
for d in sorted(glob.glob(os.path.join(V, 'seeded', 'C*-*')), key=lambda p: (p.split('/')[-1].split('-')[0], int(p.split('-')[-1]))):
    m = json.load(open(os.path.join(d, 'meta.json')))
    name = os.path.basename(d)
    chk = m.get('detecting_check') or m['property']
    c = m.get('checks', {}).get(chk, {})
    sig = c.get('signature', '').replace('signature: ', '')
    caught = f'`{sig}`' if c.get('exit') == 1 else 'MISSED'
    if m.get('obsolete'):
        caught = 'n/a - neutralised by a later repair of the library (see meta.json)'
    if m.get('not_covered'):
        caught = 'NOT COVERED (outside the domain of the property as quantified, see meta.json)'
    if chk != m['property']:
        caught += f' (by {chk})'
    fr = m.get('first_run', '')
    first = 'caught' if fr.startswith('caught') else 'missed' if m.get('not_covered') else \
        'missed, then caught' if fr.startswith('MISSED') or fr.startswith('missed') else fr[:40]
    rows.append(f"| {name} | {m.get('round', '')} | {m.get('needs', '').replace('|', '/')} | {caught} | {first} |")
head = ['| Seeded change | Round | Needs, in order to manifest | Caught by (signature of the first violation, quick tier seed 1) | First run |',
        '|---|---|---|---|---|']
p = os.path.join(V, 'DESIGN.md')
s = open(p).read()
i = s.index(head[0])
j = s.find('\n\n', i)
tail = s[j:] if j != -1 else '\n'
open(p, 'w').write(s[:i] + '\n'.join(head + rows) + tail)
print(len(rows), 'rows')
