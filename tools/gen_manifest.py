#!/usr/bin/env python3
"""Regenerates MANIFEST.json from the table below + the check modules present."""
import json, os, glob, re
ROOT = os.path.dirname(os.path.dirname(os.path.abspath(__file__)))
CHECKS = {
 # id: (technique, level text, level note, design ref)
 'C09': ('Hypothesis @given over names and name pairs + exhaustive byte/position/type grid; oracles: independent TLV encoder, independent URI renderer, inverse laws, canonical-order comparator',
         'Generated-input exploration: every conversion law is checked on tens of thousands (quick) to >10^6 (thorough) generated names and pairs, plus a complete grid of byte values; no proof of absence.',
         'Trusts the independent encoder/renderer in pbt/refs and pbt/checks/c09_names.py (written from the NDN TLV/URI rules as documented by the library).', '6/C09'),
}
CHECKS.update({
 'C01': ('Hypothesis @given over Interest/Data cases with steered total sizes + exhaustive (R,r) x length-boundary grid; oracle: byte-exact agreement with an independently assembled packet, independent signature verification, strict TLV walk, parse_* == inputs',
         'Generated-input exploration against an independent encoder (not a round trip only): a mirrored encoder/decoder error is still caught. Thousands (quick) to >10^5 (thorough) packets plus the complete shrink/boundary grid.',
         'Trusts pbt/pkt.py (reference assembly + strict reader written from the NDN packet format 0.3 spec), pycryptodome, committed test keys; ECDSA nonce pinned via a deterministic DRBG.', '6/C01'),
 'C02': ('Hypothesis @given packets x drawn mutation lists (byte-level and TLV-structural) + exhaustive offset x value substitution on small packets; oracles: signed-portion calculator, library verifier must reject any parsing mutant whose strict signed portion or signature value differs, params digest iff',
         'Generated-input exploration with a two-sided oracle for the parameters digest and a soundness oracle for tampering; thorough tier enumerates every offset of ten small packets.',
         'Trusts the strict reader in pbt/pkt.py as the definition of the signed portion, and pycryptodome for verification.', '6/C02'),
})
CHECKS.update({
 'C03': ('Hypothesis-generated operation histories (express/data/nack/advance/cancel/shutdown) run on a virtual-time asyncio loop against both front-ends; oracle: reference pending-Interest model giving the allowed outcome set per Interest, plus no-internal-error / nothing-left-pending / late-packet-inert / fresh-Interest invariants',
         'Model-based generated histories with the harness owning clock and schedule: validator-outlives-deadline, cancel-then-late-packet and packet-at-deadline interleavings are reached deterministically; thousands (quick) to >10^5 (thorough) histories. No exhaustiveness claim.',
         'Trusts the reference model in pbt/checks/c03_pit.py and the virtual loop (pbt/sim/vloop.py); ties within 1 ms of a deadline accept both neighbouring outcomes; reads len(_pit)/_int_tree as a secondary observation.', '6/C03'),
})
CHECKS.update({
 'C04': ('Hypothesis-generated attach/detach/interest/advance/reply histories over three subjects (appv2, legacy app, Dispatcher) against one dict longest-prefix model and a reply-deadline model on the virtual clock',
         'Model-based generated histories; every Interest dispatch is compared with an independent longest-prefix lookup, every reply with the deadline model. Thousands (quick) to >10^5 (thorough) histories.',
         'Trusts the dict model in pbt/checks/c04_dispatch.py and the virtual loop; detach of an absent prefix may raise KeyError.', '6/C04'),
 'C05': ('Exhaustive enumeration of the verdict x latency x signing x digest-state x validator-state grid for both front-ends plus Hypothesis-sampled mixed batches; oracle: harness call log (accepted-before-delivered), verdict mapping, ValidationFailure contents',
         'The combination grid named in the property is small and is enumerated completely in both tiers (exhaustive for that grid); mixed batches on one app instance are sampled.',
         'Trusts the reference decision table in pbt/checks/c05_validation.py; validators that raise are outside the quantifier. One known finding (legacy front-end: validator awaited outside the Interest lifetime) is printed as KNOWN-FINDING and matched by its two signatures only.', '6/C05'),
 'C06': ('Exhaustive cut enumeration + Hypothesis cut sets for stream framing through a real asyncio.StreamReader; Hypothesis random bytes and byte/TLV-structural mutations of every packet kind delivered to both front-ends and the UdpFace protocol object with bystander Interests/handlers, + (thorough) an atheris/libFuzzer campaign on the receive path with the bystander oracle inside the target; oracle: exact packet list, normal return, no unhandled loop error, bystanders still work',
         'Generated-input fuzzing of the receive path with a behavioural oracle (not only crash detection); every single cut position of the fixed streams is enumerated.',
         'Trusts the strict TLV walker for deciding what a stream face would hand over; declared lengths < 2^17.', '6/C06'),
 'C10': ('Metamorphic Hypothesis histories: each history is run with minimal and with fully wrapped link-layer envelopes (independent encoder) on two fresh apps and the observable logs compared; absolute oracles for Nack reason codes, fragmented envelopes and PIT-token echo',
         'Metamorphic relation + absolute oracles over generated histories; thousands (quick) to ~10^5 (thorough).',
         'Header fields are generated in ascending type order (as NFD sends them); token clause on appv2 only.', '6/C10'),
})
CHECKS.update({
 'C07': ('Differential fuzzing of five decoders against an independent strict reader: Hypothesis random / framed-random / grammar-generated / mutated inputs + enumeration of every single-edit mutation of seed packets + (thorough) an atheris/libFuzzer coverage-guided campaign with the same oracle inside the target; oracles: allowed exception classes, accept=>strict-accept, canonical well-formed => accept, field equality, sys.monitoring line budget for linear time',
         'Differential generated-input search; the strict reader is an independent implementation of the NDN-TLV evolvability rules with per-packet field tables. 10^4 (quick) to >10^6 (thorough) inputs. One known finding is recognised precisely (result equals the strict reading with the clamping defect emulated).',
         'Trusts pbt/pkt.py strict readers; fixed Nonce/HopLimit widths and component type ranges are not demanded (the property does not list them).', '6/C07'),
})
CHECKS.update({
 'C08': ('Hypothesis-generated TlvModel classes (type(), nesting, repeated/map fields, IncludeBase inheritance with overrides) and descriptions extracted from every shipped model; oracles: independent encoder byte equality, announced length, strict walk, decode equality (__eq__ and normalised walk), metamorphic insertion of unknown non-critical/critical elements at every gap, repeated/swapped critical fields',
         'Generated-input exploration against an independent encoder plus exhaustive per-case gap enumeration for the evolvability rules; thousands (quick) to >10^5 (thorough) model/value pairs.',
         'Trusts the independent encoder in pbt/checks/c08_tlv_model.py; field defaults None; map keys uint/text.', '6/C08'),
})
CHECKS.update({
 'C11': ('Hypothesis-generated LVS schema ASTs rendered to text, each probed with ALL names of length 0..4 over its literal alphabet; oracle: independent reference LVS interpreter (set of (rule, bindings) equal), direct and after save()/load()',
         'Generated schemas x exhaustive bounded name enumeration against a reference interpreter written from the language documentation; hundreds (quick) to >10^4 (thorough) schemas x ~2800 names each.',
         'Trusts pbt/refs/lvs_ref.py; schemas whose expansion exceeds 64 chains / 500 items are discarded (counted).', '6/C11'),
 'C12': ('Hypothesis-generated signing-biased LVS schemas, all (packet,key) pairs over matching names plus a sample of non-matching ones; oracle: reference signing relation, both directions, direct and after save()/load()',
         'Generated schemas x near-exhaustive pair enumeration against the reference signing relation; hundreds (quick) to >10^4 (thorough) schemas x up to ~9000 pairs.',
         'Trusts pbt/refs/lvs_ref.py (can_sign).', '6/C12'),
})
CHECKS.update({
 'C13': ('Hypothesis-generated valid schemas with every static error kind injected at every position (must raise SemanticError), skeleton-acyclic valid schemas (must compile/load), and every single-field corruption of compiled models on the object and through bytes, classified by an independent implementation of the six documented sanity rules; accepted models queried under a sys.monitoring line budget',
         'Fault-style enumeration per generated schema: all injection positions / all single-field corruptions are enumerated for each generated schema; the schemas themselves are sampled.',
         'Trusts the independent sanity-rule classifier and skeleton-acyclicity test in pbt/checks/c13_lvs_sanity.py; line budget 400k lines per query.', '6/C13'),
})
CHECKS.update({
 'C14': ('Hypothesis-generated certificate hierarchies (real issuing API, pooled keys) x schema family x one injected deviation per link x validator-instance/packet-order histories on the virtual loop with a simulated certificate server; oracle: reference chain evaluator (strict signed portion, pycryptodome, reference signing relation), order/instance independence, constructor refusal for bad anchors, fetch bound',
         'Generated histories against a reference chain evaluator; hundreds (quick) to ~10^4 (thorough) histories of 1..6 validations.',
         'Trusts pbt/refs/lvs_ref.py, the strict Data reader and pycryptodome; an exception out of the validator counts as not accepted; HMAC/Ed25519 links soundness only.', '6/C14'),
})
CHECKS.update({
 'C16': ('Hypothesis @given issuing parameters (key names, issuer ids, subject/issuer key types, pinned-nonce ECDSA and synthetic signers, start times/durations at calendar edges, patched clock) + exhaustive (R,r) x size-around-253 grid; oracle: strict certificate reader, independent instant rendering, pycryptodome verification over the strict signed portion, parser agreement',
         'Generated-input exploration against independent decoding/verification; thousands (quick) to ~10^5 (thorough) certificates plus the complete shrink/boundary grid.',
         'Trusts pbt/pkt.py strict_cert, pycryptodome and stdlib datetime arithmetic.', '6/C16'),
})
CHECKS.update({
 'C20': ('Exhaustive enumeration of the presence/absence product (env x config files x keys x location kinds x default existence) plus Hypothesis-sampled config files / environment / transport URIs in a per-case sandbox tree; oracle: independent resolver written from the property text, default_face / default_keychain field checks',
         'The configuration product is finite and enumerated completely in the thorough tier (every third combination in quick); values and file syntax are sampled.',
         'Trusts the resolver in pbt/checks/c20_client_conf.py; Platform candidate-path methods are replaced on the singleton (plus one un-patched Linux pass).', '6/C20'),
})
CHECKS.update({
 'C19': ('Exhaustive enumeration of small objects x discovery answers x leading-loss matrices + Hypothesis-generated objects / loss matrices / faults against a scripted producer on the virtual loop; oracle: expected yield list, failure point, per-segment attempt count, no Interest beyond the final segment',
         'The N<=4, r<=3 loss-matrix space is enumerated completely in the thorough tier; larger objects and random loss patterns are sampled.',
         'Trusts the expected-yield model in pbt/checks/c19_segment_fetch.py; responses immediate, losses = silence.', '6/C19'),
})
CHECKS.update({
 'C17': ('Exhaustive reply x op x front-end x latency grid + Hypothesis-generated batches of concurrent register/unregister calls against a scripted forwarder on the virtual loop, routes declared before two consecutive connections, and ControlResponse round trips; oracles: strict decoding of the command Interest in each front-end format (digest, parameters digest, timestamp order, no overlap), True iff status 200, no exception',
         'The reply/op/front-end grid is enumerated completely; concurrency, prefixes and response values are sampled.',
         'Trusts the strict Interest reader and the scripted forwarder in pbt/checks/c17_registration.py.', '6/C17'),
})
CHECKS.update({
 'C18': ('Hypothesis-generated receive/publish/advance histories on one SvsInst running on appv2 with virtual time and drawn timer jitter; oracle: entry-wise-max model, callback-iff-raised, publish announcement, suppression bookkeeping read from the public state attribute, every emitted vector equals the local vector',
         'Model-based generated histories with the harness owning the clock (advance to just before / at / just after next_sync_timing); thousands (quick) to ~10^5 (thorough) histories.',
         'Trusts the model in pbt/checks/c18_svs.py; single-node safety only.', '6/C18'),
})
CHECKS.update({
 'C15': ('Hypothesis-generated keychain operation histories (incl. reopen, every get_signer argument form) with storage-failure injection at the k-th internal database / private-key-store step and optional crash, plus exhaustive enumeration of every failing step of every operation kind; oracle: dict model, Mapping laws per view scoped to the owner, defaults, signature verification under the model-selected key, post-fault invariants and repeatability',
         'Model-based generated histories + fault enumeration: every step index of 12 operation kinds is failed once with and once without a crash; histories are sampled.',
         'Trusts the dict model and raw-table reader in pbt/checks/c15_keychain.py; faults at API-step granularity; key material from a committed pool.', '6/C15'),
})
NOT_YET = {}
def main():
    props = [json.loads(l) for l in open(os.path.join(ROOT, 'properties.jsonl'))]
    checks, na = [], []
    for p in props:
        pid = p['id']
        if pid in CHECKS and glob.glob(os.path.join(ROOT, 'pbt/checks', pid.lower() + '_*.py')):
            tech, text, note, ref = CHECKS[pid]
            checks.append({
                'property_id': pid,
                'quick_cmd': f'./vcheck {pid} --tier quick',
                'thorough_cmd': f'./vcheck {pid} --tier thorough',
                'evidence_file': f'evidence/{pid}.json',
                'replay_cmd_template': f'./vcheck {pid} --replay {{path}}',
                'engine': 'pbt',
                'level_claimed': {'category': 'exploration', 'text': text, 'design_ref': f'DESIGN.md section {ref}'},
                'level_note': note,
                'technique': tech,
            })
        else:
            na.append({'property_id': pid, 'reason': NOT_YET.get(pid, 'check not built yet in this revision of /verif (planned: see DESIGN.md section 6); not a statement that the technique cannot apply')})
    m = {
        'version': 1,
        'setup_cmd': '/venv/bin/pip install --no-index --find-links /opt/veriftools/wheels hypothesis >/dev/null 2>&1; /venv/bin/pip install --no-index --find-links /opt/veriftools/wheels --target /verif/.deps atheris >/dev/null 2>&1; /venv/bin/python -c "import hypothesis, ndn"',
        'hooks': {'guard': 'NDN_VERIF', 'enable': 'no source hooks: checks import /repo/src directly (PYTHONPATH) and inject clock/randomness/faults from outside', 
                  'baseline_off_cmd': 'cd /repo && /venv/bin/python -m pytest -ra -q -p no:cacheprovider --timeout=900 --continue-on-collection-errors',
                  'source_commits': [], 'add_only': True},
        'engines': [{'name': 'pbt', 'path': 'pbt/', 'serves_properties': [c['property_id'] for c in checks],
                     'kind_free_text': 'Hypothesis-driven generated-input search (given + list-of-operation histories on a virtual-time asyncio loop), exhaustive enumerators for small finite sub-spaces, independent reference oracles under pbt/refs'}],
        'checks': checks,
        'not_applicable': na,
        'notes': 'All checks: ./vcheck <ID> --tier quick|thorough ; VERIF_SEED honoured; exit 2 = harness error. known_findings.json lists genuine defects (known/fixed).',
    }
    json.dump(m, open(os.path.join(ROOT, 'MANIFEST.json'), 'w'), indent=1)
    print('checks:', [c['property_id'] for c in checks])
if __name__ == '__main__':
    main()
