"""Byte-level and TLV-structural mutators over wires; all choices come from JSON mutation specs (no RNG here)."""
from hypothesis import strategies as st

from .refs import tlv as T

# element types whose value is itself a TLV sequence (NDN 0.3 + NDNLPv2 + cert extensions)
CONTAINERS = {5, 6, 7, 0x14, 0x16, 0x1c, 0x1e, 0x2c, 0x64, 0xfd, 0x0320, 0x0340, 0xFD00FD, 0x102, 0x1f}


def to_tree(buf, start=0, end=None, containers=CONTAINERS, depth=0):
    """bytes -> list of nodes [typ, value] where value is bytes or a list of nodes."""
    buf = bytes(buf)
    if end is None:
        end = len(buf)
    out = []
    for typ, tl, vs, ve, _m in T.walk(buf, start, end):
        val = buf[vs:ve]
        if typ in containers and depth < 6:
            try:
                val = to_tree(buf, vs, ve, containers, depth + 1)
            except T.Malformed:
                pass
        out.append([typ, val])
    return out


def enc_nodes(nodes) -> bytes:
    return b''.join(T.enc_tlv(t, v if isinstance(v, (bytes, bytearray)) else enc_nodes(v)) for t, v in nodes)


def paths(nodes, prefix=()):
    """All node paths in pre-order."""
    out = []
    for i, (t, v) in enumerate(nodes):
        p = prefix + (i,)
        out.append(p)
        if isinstance(v, list):
            out.extend(paths(v, p))
    return out


def _parent(nodes, path):
    cur = nodes
    for i in path[:-1]:
        cur = cur[i][1]
    return cur


def _clone(nodes):
    return [[t, v if isinstance(v, (bytes, bytearray)) else _clone(v)] for t, v in nodes]


STRUCT_KINDS = ['delete', 'dup', 'swap', 'insert-crit', 'insert-noncrit', 'retype', 'grow', 'shrink', 'empty',
                'append-inside']
BYTE_KINDS = ['sub', 'trunc', 'len-raw', 'append-raw', 'insert-byte', 'delete-byte', 'num-wide', 'len-raw-chain']


def mutation_spec(kinds=None):
    kinds = kinds or (BYTE_KINDS + STRUCT_KINDS)
    return st.fixed_dictionaries({
        'k': st.sampled_from(kinds),
        'region': st.sampled_from(['any', 'any', 'signed', 'siginfo', 'sigvalue', 'digest', 'tl']),
        'pos': st.integers(0, 1 << 20),
        'val': st.integers(0, 255),
        'n': st.integers(1, 4),
    })


def apply(wire: bytes, m, regions=None):
    """-> mutated bytes (or None when the mutation is not applicable / a no-op)."""
    wire = bytes(wire)
    k = m['k']
    if k in BYTE_KINDS:
        lo, hi = 0, len(wire)
        if regions and m.get('region') in regions and regions[m['region']] is not None:
            lo, hi = regions[m['region']]
        if hi <= lo:
            lo, hi = 0, len(wire)
        if not wire:
            return None
        off = lo + m['pos'] % (hi - lo)
        if k == 'sub':
            v = m['val'] if m['val'] != wire[off] else (m['val'] + 1) % 256
            return wire[:off] + bytes([v]) + wire[off + 1:]
        if k == 'trunc':
            cut = m['pos'] % len(wire)
            return wire[:cut]
        if k == 'append-raw':
            return wire + bytes([m['val']]) * m['n']
        if k == 'insert-byte':
            return wire[:off] + bytes([m['val']]) + wire[off:]
        if k == 'delete-byte':
            return wire[:off] + wire[off + 1:]
        if k == 'num-wide':
            # one INNER element's Type or Length number rewritten in a wide form - the same value non-minimally, or an extreme
            # 8-octet value (>= 2^63, 2^64-1, 2^64-k) - and the outermost length re-fixed so that the packet stays well framed
            try:
                offs = _length_offsets(wire)[1:]
                outer = T.read_tlv(wire, 0, len(wire))
            except T.Malformed:
                return None
            if not offs or outer[3] != len(wire):
                return None
            if m.get('region') in ('digest', 'tl'):
                # aim at the components of the packet's Name (the parameters-digest component among them)
                try:
                    first = T.read_tlv(wire, outer[2], outer[3])
                    if first[0] == 7:
                        inside = [o for o in offs if first[2] <= o < first[3]]
                        if inside:
                            offs = inside[::-1]       # (the digest component is usually the last one)
                except T.Malformed:
                    pass
            lo = offs[m['pos'] % len(offs)]
            ln, lend, _ = T.read_num(wire, lo, len(wire))
            choice = m['n'] % 4
            if m['val'] % 3 == 0 and choice != 1:
                # the Type number in front of it
                to = max(o for o in _type_offsets(wire) if o < lo)
                a, b, cur = to, lo, T.read_num(wire, to, len(wire))[0]
            else:
                a, b, cur = lo, lend, ln
            if choice == 0:
                new = b'\xff' + cur.to_bytes(8, 'big')
            elif choice == 1:
                # read as a signed number this is minus the size of the element's own type-length: a cursor that adds it stands still
                back = (a - T.read_tlv(wire, max(o for o in _type_offsets(wire) if o <= a), len(wire))[1]) + 9 if b != lo else 1
                new = b'\xff' + (2 ** 64 - max(1, back)).to_bytes(8, 'big')
            elif choice == 2:
                new = b'\xff' + (2 ** 63 + m['val']).to_bytes(8, 'big')
            else:
                new = b'\xfe' + cur.to_bytes(4, 'big') if cur < 2 ** 32 else b'\xff' + cur.to_bytes(8, 'big')
            return _splice_fixing_ancestors(wire, 0, len(wire), a, b, new)
        if k == 'len-raw-chain':
            # COUPLED length edits: an element and the chain of its last descendants all claim n octets more, nothing above them
            # is told - each of them still 'ends where its last child ends', but the outermost of them overruns ITS parent
            try:
                chains = _last_chains(wire)
            except T.Malformed:
                return None
            chains = [c for c in chains if len(c) >= 2]
            if not chains:
                return None
            ch = chains[m['pos'] % len(chains)]
            ch = ch[:2 + m['val'] % 2] if len(ch) > 2 else ch
            out = bytearray(wire)
            for o in ch:
                if out[o] + m['n'] >= 0xFD:
                    return None
                out[o] += m['n']
            return bytes(out)
        if k == 'len-raw':
            # +-n on one element's length byte without re-fixing anything else
            try:
                tree_offs = _length_offsets(wire)
            except T.Malformed:
                return None
            if not tree_offs:
                return None
            o = tree_offs[m['pos'] % len(tree_offs)]
            delta = m['n'] if m['val'] % 2 else -m['n']
            return wire[:o] + bytes([(wire[o] + delta) % 256]) + wire[o + 1:]
    try:
        tree = to_tree(wire)
    except T.Malformed:
        return None
    ps = paths(tree)
    if not ps:
        return None
    p = ps[m['pos'] % len(ps)]
    tree = _clone(tree)
    par = _parent(tree, p)
    i = p[-1]
    node = par[i]
    if k == 'delete':
        del par[i]
    elif k == 'dup':
        par.insert(i, [node[0], node[1] if isinstance(node[1], bytes) else _clone(node[1])])
    elif k == 'swap':
        if i + 1 >= len(par):
            return None
        par[i], par[i + 1] = par[i + 1], par[i]
    elif k == 'insert-crit':
        par.insert(i, [[0xF1, 0x7F, 0xFFF1, 0x23][m['val'] % 4], bytes([m['val']]) * (m['n'] - 1)])
    elif k == 'insert-noncrit':
        par.insert(i, [[0xF0, 0x7E, 0xFFF0, 0x40][m['val'] % 4], bytes([m['val']]) * (m['n'] - 1)])
    elif k == 'retype':
        node[0] = [node[0] ^ 1, node[0] + 2, m['val'] or 1, 0xFD00 + m['val']][m['n'] % 4]
    elif k == 'grow':
        if isinstance(node[1], list):
            node[1].append([0xF0, b'\x00' * m['n']])
        else:
            node[1] = node[1] + bytes([m['val']]) * m['n']
    elif k == 'shrink':
        if isinstance(node[1], list) or not node[1]:
            return None
        node[1] = node[1][:-min(m['n'], len(node[1]))]
    elif k == 'empty':
        node[1] = b''
    elif k == 'append-inside':
        if isinstance(node[1], list):
            node[1].append([m['val'] or 1, b'\x01' * m['n']])
        else:
            return None
    else:
        raise ValueError(k)
    out = enc_nodes(tree)
    return out if out != wire else None


def _splice_fixing_ancestors(buf, start, end, a, b, new):
    """buf[start:end] (a sequence of elements) with buf[a:b] - part of ONE element's type-length header - replaced by `new`,
    the lengths of every element that ENCLOSES that element re-computed."""
    out = b''
    off = start
    while off < end:
        try:
            typ, tl, vs, ve, _m = T.read_tlv(buf, off, end)
        except T.Malformed:
            return out + buf[off:end]
        if tl <= a and b <= vs:
            out += buf[tl:a] + new + buf[b:ve]           # the header of this very element
        elif vs <= a and b <= ve:
            inner = _splice_fixing_ancestors(buf, vs, ve, a, b, new)
            out += T.enc_num(typ) + T.enc_num(len(inner)) + inner
        else:
            out += buf[tl:ve]
        off = ve
    return out


def _type_offsets(wire, start=0, end=None, depth=0):
    if end is None:
        end = len(wire)
    out = []
    for typ, tl, vs, ve, _m in T.walk(wire, start, end):
        out.append(tl)
        if typ in CONTAINERS and depth < 6:
            try:
                out.extend(_type_offsets(wire, vs, ve, depth + 1))
            except T.Malformed:
                pass
    return out


def _last_chains(wire, start=0, end=None, depth=0):
    """For every element: [offset of its length octet, of its last child's, of that one's last child's, ...] (single-octet
    lengths only; children are looked for in containers and - one level - in name components)."""
    if end is None:
        end = len(wire)
    out = []
    for typ, tl, vs, ve, _m in T.walk(wire, start, end):
        chain = [tl + T.num_size(typ)]
        t_, vs_, ve_ = typ, vs, ve
        for _ in range(4):
            if t_ not in CONTAINERS or ve_ <= vs_:
                break
            try:
                kids = T.walk(wire, vs_, ve_)
            except T.Malformed:
                break
            if not kids:
                break
            t_, tl_, vs_, ve_, _mm = kids[-1]
            chain.append(tl_ + T.num_size(t_))
        out.append(chain)
        if typ in CONTAINERS and depth < 6:
            try:
                out.extend(_last_chains(wire, vs, ve, depth + 1))
            except T.Malformed:
                pass
    return out


def _length_offsets(wire, start=0, end=None, depth=0):
    """Offsets of the (first byte of the) length number of every element, recursively."""
    if end is None:
        end = len(wire)
    out = []
    for typ, tl, vs, ve, _m in T.walk(wire, start, end):
        out.append(tl + T.num_size(typ))
        if typ in CONTAINERS and depth < 6:
            try:
                out.extend(_length_offsets(wire, vs, ve, depth + 1))
            except T.Malformed:
                pass
    return out
