"""
Independent NDN-TLV reference: encoder (shortest forms) and strict bounds-checked walker.
Written from the NDN packet specification (TLV encoding, NonNegativeInteger); it does NOT
import anything from the library under test.
"""


class Malformed(Exception):
    pass


def enc_num(n: int) -> bytes:
    if n < 0:
        raise ValueError(n)
    if n <= 252:
        return bytes([n])
    if n <= 0xFFFF:
        return b'\xfd' + n.to_bytes(2, 'big')
    if n <= 0xFFFFFFFF:
        return b'\xfe' + n.to_bytes(4, 'big')
    if n <= 0xFFFFFFFFFFFFFFFF:
        return b'\xff' + n.to_bytes(8, 'big')
    raise ValueError(n)


def num_size(n: int) -> int:
    return len(enc_num(n))


def enc_tlv(typ: int, value: bytes = b'') -> bytes:
    value = bytes(value)
    return enc_num(typ) + enc_num(len(value)) + value


def enc_nni(n: int, width=None) -> bytes:
    if width is None:
        width = 1 if n <= 0xFF else 2 if n <= 0xFFFF else 4 if n <= 0xFFFFFFFF else 8
    return n.to_bytes(width, 'big')


def dec_nni(b: bytes, widths=(1, 2, 4, 8)) -> int:
    if len(b) not in widths:
        raise Malformed(f'integer width {len(b)}')
    return int.from_bytes(b, 'big')


def read_num(buf, off: int, end: int):
    """-> (value, next_off, minimal: bool).  Fails unless all bytes lie before `end`."""
    if off >= end:
        raise Malformed('number starts past end')
    b0 = buf[off]
    if b0 <= 252:
        return b0, off + 1, True
    n = {253: 2, 254: 4, 255: 8}[b0]
    if off + 1 + n > end:
        raise Malformed('number truncated')
    v = int.from_bytes(bytes(buf[off + 1:off + 1 + n]), 'big')
    minimal = v > {2: 252, 4: 0xFFFF, 8: 0xFFFFFFFF}[n]
    return v, off + 1 + n, minimal


NO_CLAMP_HERE = False   # set while the components of a Name are read (see pkt.strict_name)
CLAMP = False   # emulation of ONE known library defect (value cut by slicing); see c07_decoders / known_findings.json


class clamped:
    def __enter__(self):
        global CLAMP
        CLAMP = True

    def __exit__(self, *a):
        global CLAMP
        CLAMP = False


def read_tlv(buf, off: int, end: int):
    """-> (typ, tl_start, v_start, v_end, minimal).  Element must lie entirely in [off, end)."""
    typ, p, m1 = read_num(buf, off, end)
    ln, p, m2 = read_num(buf, p, end)
    if p + ln > end:
        if CLAMP and not NO_CLAMP_HERE:
            # (not inside a Name, see pkt.strict_name: Name.decode checks the buffer - only Bytes / Model fields are clamped)
            return typ, off, p, end, (m1 and m2)
        raise Malformed(f'element type {typ} at {off} overruns its container ({p}+{ln}>{end})')
    return typ, off, p, p + ln, (m1 and m2)


def walk(buf, start: int = 0, end: int = None):
    """List of (typ, tl_start, v_start, v_end, minimal) for the consecutive elements filling [start, end)."""
    if end is None:
        end = len(buf)
    out = []
    off = start
    while off < end:
        el = read_tlv(buf, off, end)
        out.append(el)
        off = el[3]
    return out


def single(buf):
    """The buffer must be exactly one element."""
    buf = bytes(buf)
    el = read_tlv(buf, 0, len(buf))
    if el[3] != len(buf):
        raise Malformed('trailing bytes after element')
    return el


# ---- tree form: (typ, bytes) leaves or (typ, [children]) ------------------------------------
def enc_tree(node) -> bytes:
    typ, val = node
    if isinstance(val, (bytes, bytearray)):
        return enc_tlv(typ, val)
    return enc_tlv(typ, b''.join(enc_tree(c) for c in val))


def enc_name(comps) -> bytes:
    """comps: list of (typ, value-bytes)."""
    return enc_tlv(7, b''.join(enc_tlv(t, v) for t, v in comps))
