"""
Reference semantics of Light VerSec, written from docs/src/lvs/lvs.rst (NOT from the compiler/checker):
schema AST (JSON) -> text renderer, rule expansion, matcher, signing relation.

AST:  schema = {'rules': [rule]}
      rule   = {'id': '#r', 'name': [item], 'cons': [[term]], 'sign': ['#k']}
      item   = {'lit': 'a'} | {'pat': 'x'} | {'ref': '#r'}          (lit = URI component text)
      term   = {'pat': 'x', 'opts': [opt]}
      opt    = {'lit': 'a'} | {'pat': 'y'} | {'fn': '$f', 'args': [{'lit':..}|{'pat':..}]}
"""
import itertools

from . import tlv as T

UNRESERVED = set(b'abcdefghijklmnopqrstuvwxyzABCDEFGHIJKLMNOPQRSTUVWXYZ0123456789-._~')


def comp_of(text: str) -> bytes:
    """URI component text (as written inside quotes in LVS) -> encoded component.  Only the simple forms used here."""
    if '=' in text:
        t, v = text.split('=', 1)
        return T.enc_tlv(int(t), v.encode())
    return T.enc_tlv(8, text.encode())


# ---- rendering --------------------------------------------------------------------------------------------------
def render_opt(o):
    if 'lit' in o:
        return f'"{o["lit"]}"'
    if 'pat' in o:
        return o['pat']
    return f'{o["fn"]}(' + ', '.join(f'"{a["lit"]}"' if 'lit' in a else a['pat'] for a in o['args']) + ')'


def render_rule(r, style=0):
    sep = ['/', ' / ', '/'][style % 3]
    name = sep.join(f'"{i["lit"]}"' if 'lit' in i else i['pat'] if 'pat' in i else i['ref'] for i in r['name'])
    if style % 2:
        name = '/' + name
    s = f'{r["id"]}: {name}'
    if r['cons']:
        sets = ['{' + ', '.join(f'{t["pat"]}: ' + ' | '.join(render_opt(o) for o in t['opts']) for t in cs) + '}' for cs in r['cons']]
        s += ' & ' + ' | '.join(sets)
    if r['sign']:
        s += ' <= ' + ' | '.join(r['sign'])
    return s


def text_order(schema, moves=()):
    """The order in which the rules stand in the text: the schema's order with some rules moved (the meaning of an LVS file does
    not depend on the order of its rules)."""
    rules = list(schema['rules'])
    for a, b in moves or ():
        if rules:
            rules.insert(b % len(rules), rules.pop(a % len(rules)))
    return rules


def render(schema, style=0, moves=()):
    lines = []
    for i, r in enumerate(text_order(schema, moves)):
        if (style + i) % 4 == 0:
            lines.append('// comment ' + r['id'])
        lines.append(('  ' if style % 2 else '') + render_rule(r, style + i))
    return '\n'.join(lines) + '\n'


# ---- expansion ------------------------------------------------------------------------------------------------------
class Chain:
    __slots__ = ('rule', 'items', 'terms', 'sign', 'def_index')

    def __init__(self, rule, items, terms, sign, def_index):
        self.rule, self.items, self.terms, self.sign, self.def_index = rule, items, terms, sign, def_index


_fresh = itertools.count()


def _rename_temps(items, terms):
    """Give every temporary-pattern occurrence of an expanded sub-chain a fresh identity."""
    mapping = {}
    new_items = []
    for kind, v in items:
        if kind == 'pat' and isinstance(v, tuple):
            nv = ('tmp', next(_fresh))
            mapping[v] = nv
            new_items.append(('pat', nv))
        else:
            new_items.append((kind, v))
    new_terms = [(mapping.get(p, p), opts) for p, opts in terms]
    return new_items, new_terms


def expand(schema):
    """-> dict rule id -> list[Chain] (alternatives: several definitions x constraint sets x referenced alternatives)."""
    by_id = {}
    for idx, r in enumerate(schema['rules']):
        by_id.setdefault(r['id'], []).append((idx, r))
    memo = {}

    def chains_of(rid, stack=()):
        if rid in memo:
            return memo[rid]
        if rid in stack:
            raise ValueError('cyclic reference')
        out = []
        for idx, r in by_id[rid]:
            for cs in (r['cons'] or [[]]):
                # own temps: one fresh identity per occurrence; a constraint on temp '_a' applies to every occurrence of
                # '_a' in THIS definition's own name pattern
                partial = [([], [])]
                own_temp = {}
                for it in r['name']:
                    if 'lit' in it:
                        partial = [(items + [('lit', comp_of(it['lit']))], terms) for items, terms in partial]
                    elif 'pat' in it:
                        p = it['pat']
                        if p.startswith('_'):
                            key = ('tmp', next(_fresh))
                            own_temp.setdefault(p, []).append(key)
                            partial = [(items + [('pat', key)], terms) for items, terms in partial]
                        else:
                            partial = [(items + [('pat', p)], terms) for items, terms in partial]
                    else:
                        subs = chains_of(it['ref'], stack + (rid,))
                        new = []
                        for items, terms in partial:
                            for sub in subs:
                                si, st_ = _rename_temps(sub.items, sub.terms)
                                new.append((items + si, terms + st_))
                        partial = new
                for items, terms in partial:
                    own_terms = []
                    for t in cs:
                        p = t['pat']
                        if p.startswith('_'):
                            for key in own_temp.get(p, []):
                                own_terms.append((key, t['opts']))
                        else:
                            own_terms.append((p, t['opts']))
                    out.append(Chain(rid, items, terms + own_terms, list(r['sign']), idx))
        memo[rid] = out
        return out
    return {rid: chains_of(rid) for rid in by_id}


# ---- matching -----------------------------------------------------------------------------------------------------------
def eval_opt(o, value, bindings, fns):
    if 'lit' in o:
        return value == comp_of(o['lit'])
    if 'pat' in o:
        return o['pat'] in bindings and bindings[o['pat']] == value
    args = [comp_of(a['lit']) if 'lit' in a else bindings.get(a['pat']) for a in o['args']]
    return bool(fns[o['fn']](value, args))


def match_chain(chain, name, init, fns, check_prebound=True):
    """-> bindings dict (named patterns only, incl. init) or None.  init: bindings carried from the packet."""
    if len(name) != len(chain.items):
        return None
    b = dict(init)
    seen = set()
    for (kind, v), comp in zip(chain.items, name):
        if kind == 'lit':
            if comp != v:
                return None
            continue
        temp = isinstance(v, tuple)
        if not temp and v in b:
            if b[v] != comp:
                return None
            if v in seen or not check_prebound:
                continue
        # first occurrence in this chain: every constraint on it must hold given the bindings so far
        for p, opts in chain.terms:
            if p == v and not any(eval_opt(o, comp, b, fns) for o in opts):
                return None
        if not temp:
            b[v] = comp
            seen.add(v)
    return b


def match_all(schema, name, fns, expanded=None):
    """-> set of (rule id, frozenset(bindings.items())) over non-temporary rules."""
    ex = expanded or expand(schema)
    out = set()
    for rid, chains in ex.items():
        if rid.startswith('#_'):
            continue
        for ch in chains:
            b = match_chain(ch, name, {}, fns)
            if b is not None:
                out.add((rid, frozenset(b.items())))
    return out


def can_sign(schema, pkt, key, fns, expanded=None):
    ex = expanded or expand(schema)
    for rid, chains in ex.items():
        for ch in chains:
            b = match_chain(ch, pkt, {}, fns)
            if b is None:
                continue
            for k in ch.sign:
                for kc in ex.get(k, []):
                    if match_chain(kc, key, b, fns, check_prebound=True) is not None:
                        return True
    return False


def matches_any(schema, name, fns, expanded=None):
    ex = expanded or expand(schema)
    return any(match_chain(ch, name, {}, fns) is not None for chains in ex.values() for ch in chains)


def literals(schema):
    out = []

    def add(t):
        if t not in out:
            out.append(t)
    for r in schema['rules']:
        for it in r['name']:
            if 'lit' in it:
                add(it['lit'])
        for cs in r['cons']:
            for t in cs:
                for o in t['opts']:
                    if 'lit' in o:
                        add(o['lit'])
                    if 'fn' in o:
                        for a in o['args']:
                            if 'lit' in a:
                                add(a['lit'])
    return out
