"""
Packet cases (Interest / Data) as JSON, the independent reference assembly of the expected wire,
and a strict reader of Interest / Data wires.  Nothing here calls ndn.encoding for encoding or decoding.
"""
import hashlib

from hypothesis import strategies as st

from . import keys as K
from . import strats as S
from .refs import tlv as T

# type numbers (NDN packet format 0.3)
INTEREST, DATA, NAME = 5, 6, 7
CAN_BE_PREFIX, MUST_BE_FRESH, FWD_HINT, NONCE, LIFETIME, HOP_LIMIT = 0x21, 0x12, 0x1e, 0x0a, 0x0c, 0x22
APP_PARAM, ISIG_INFO, ISIG_VALUE = 0x24, 0x2c, 0x2e
META_INFO, CONTENT, SIG_INFO, SIG_VALUE = 0x14, 0x15, 0x16, 0x17
CONTENT_TYPE, FRESHNESS, FINAL_BLOCK = 0x18, 0x19, 0x1a
SIG_TYPE, KEY_LOCATOR, KEY_DIGEST, SIG_NONCE, SIG_TIME, SIG_SEQ = 0x1b, 0x1c, 0x1d, 0x26, 0x28, 0x2a


def payload_bytes(spec, overhead_fn=None):
    """payload spec: None | {'hex':..} | {'len':n,'fill':b} | {'total':N,'fill':b} (total packet size target)."""
    if spec is None:
        return None
    if 'hex' in spec:
        return bytes.fromhex(spec['hex'])
    if 'len' in spec:
        n = spec['len']
    else:
        n = max(0, spec['total'] - overhead_fn())
    f = spec.get('fill', 0)
    return bytes((f + 7 * i) & 0xFF for i in range(n))


def payload_spec(max_total=70000):
    small = st.binary(max_size=40).map(lambda b: {'hex': b.hex()})
    edges = st.sampled_from([253, 256, 65536, 65539, 65791])
    near = st.tuples(edges, st.integers(-14, 14)).map(lambda t: t[0] + t[1])
    total = st.one_of(near, near, st.integers(0, 600), st.integers(0, max_total))
    return st.one_of(
        st.none(), small, small,
        st.fixed_dictionaries({'total': total, 'fill': st.integers(0, 255)}),
        st.fixed_dictionaries({'total': total, 'fill': st.integers(0, 255)}),
        st.fixed_dictionaries({'len': st.one_of(near, st.integers(0, 300)), 'fill': st.integers(0, 255)}),
    )


_U64 = st.one_of(st.sampled_from([0, 1, 255, 256, 65535, 65536, 2 ** 32 - 1, 2 ** 32, 2 ** 64 - 1]),
                 st.integers(0, 2 ** 64 - 1), st.integers(0, 5000))


def opt(s):
    return st.one_of(st.none(), s)


def _steer_name(draw, name, max_total):
    if draw(st.integers(0, 3)) != 0:
        return name
    cur = sum(len(S.comp_bytes(c)) for c in name)
    targets = [253, 253 - 34, 240, 255] + ([65536, 65536 - 34] if max_total > 66000 else [])
    want = draw(st.sampled_from(targets)) + draw(st.integers(-4, 4))
    pad = want - cur - 2
    if pad >= 253:
        pad -= 2
    if pad < 0 or pad > 66000:
        return name
    return name + [[8, (b'n' * pad).hex()]]


@st.composite
def data_case(draw, signer_kinds=None, max_total=70000):
    meta = draw(st.one_of(
        st.none(),
        st.fixed_dictionaries({'content_type': opt(_U64), 'freshness_period': opt(_U64),
                               'final_block_id': opt(S.component(12).map(lambda c: S.comp_bytes(c).hex()))})))
    return {'kind': 'data', 'name': _steer_name(draw, draw(S.name(0, 6, allow_digest_types=True)), max_total),
            'name_rep': draw(st.integers(0, 9)),
            'meta': meta, 'payload': draw(payload_spec(max_total)),
            'signer': draw(K.signer_spec(signer_kinds)), 'reuse': draw(st.booleans()), 'nested': draw(st.integers(0, 5)) == 0}


@st.composite
def interest_case(draw, signer_kinds=None, max_total=70000):
    signer = draw(K.signer_spec(signer_kinds))
    payload = draw(payload_spec(max_total))
    name = draw(S.name(0, 6, allow_digest_types=False))
    # implicit digest components (type 1) are legal anywhere; params digest (type 2) only as the placeholder
    if draw(st.integers(0, 5)) == 0:
        name.insert(draw(st.integers(0, len(name))), [1, draw(st.binary(min_size=32, max_size=32)).hex()])
    name = _steer_name(draw, name, max_total)
    need_digest = payload is not None or signer['kind'] != 'none'
    digest_pos = None
    if need_digest and draw(st.integers(0, 2)) == 0:
        digest_pos = draw(st.integers(0, len(name)))
        name.insert(digest_pos, [2, '00' * 32])
    params = {
        'can_be_prefix': draw(st.booleans()), 'must_be_fresh': draw(st.booleans()),
        'nonce': draw(opt(st.one_of(st.sampled_from([0, 2 ** 32 - 1]), st.integers(0, 2 ** 32 - 1)))),
        'lifetime': draw(st.one_of(st.none(), st.just(4000), _U64)),
        'hop_limit': draw(opt(st.integers(0, 255))),
        'forwarding_hint': draw(st.lists(S.name(0, 3, max_len=10, allow_digest_types=False), max_size=3)),
    }
    return {'kind': 'interest', 'name': name, 'name_rep': draw(st.integers(0, 9)), 'digest_pos': digest_pos,
            'params': params, 'payload': payload, 'signer': signer, 'reuse': draw(st.booleans()), 'nested': draw(st.integers(0, 5)) == 0,
            'sig_time': draw(st.integers(0, 2 ** 48)), 'sig_nonce': draw(st.integers(1, 2 ** 64 - 1))}


def packet_case(signer_kinds=None, max_total=70000):
    return st.one_of(data_case(signer_kinds, max_total), interest_case(signer_kinds, max_total))


# ---- name representations handed to the library -------------------------------------------------
def name_in_rep(name_json, rep):
    from .checks.c09_names import ref_comp_canonical, ref_name_canonical
    comps = [(c[0], bytes.fromhex(c[1])) for c in name_json]
    enc = [T.enc_tlv(t, v) for t, v in comps]
    rep = rep % 10
    if rep == 7:
        return tuple(enc)
    if rep == 8:
        return (e for e in enc)          # one-shot: a generator
    if rep == 9:
        return iter(list(enc))           # one-shot: an iterator
    if rep == 0:
        return list(enc)
    if rep == 1:
        return [bytearray(e) for e in enc]
    if rep == 2:
        return [memoryview(e) for e in enc]
    if rep == 3:
        return ref_name_canonical(comps)
    if rep == 4:
        return [ref_comp_canonical(t, v) if i % 2 else enc[i] for i, (t, v) in enumerate(comps)]
    if rep == 5:
        return T.enc_tlv(7, b''.join(enc))
    return memoryview(T.enc_tlv(7, b''.join(enc)))


# ---- reference assembly -----------------------------------------------------------------------------
def ref_sig_info(typ_outer, spec, case, for_interest):
    k = spec['kind']
    body = T.enc_tlv(SIG_TYPE, bytes([K.SIG_TYPE[k]]))
    if spec.get('kl') is not None and k not in ('digest', 'null'):
        body += T.enc_tlv(KEY_LOCATOR, S.name_wire(spec['kl']))
    if k == 'digest' and for_interest:
        body += T.enc_tlv(SIG_NONCE, T.enc_nni(case['sig_nonce']))
        body += T.enc_tlv(SIG_TIME, T.enc_nni(case['sig_time']))
    return T.enc_tlv(typ_outer, body)


def reserved_size(spec):
    k = spec['kind']
    if k in ('digest', 'hmac'):
        return 32
    if k == 'null':
        return 0
    if k == 'ed25519':
        return 64
    if k == 'rsa':
        return (K.KEYS[spec['key']]['bits'] + 7) // 8      # the modulus need not be a whole number of octets
    if k == 'ecdsa':
        return {'P-256': 72, 'P-384': 104, 'P-521': 140}[K.KEYS[spec['key']]['curve']]
    if k == 'synthetic':
        return spec['R']
    raise ValueError(k)


class Expected:
    """Reference decomposition of the packet the library should emit, up to the signature value."""

    def __init__(self, case):
        self.case = case
        self.kind = case['kind']
        self.spec = case['signer']
        self.signed = self.spec['kind'] != 'none'
        self.name = [(c[0], bytes.fromhex(c[1])) for c in case['name']]

    def data_prefix(self, payload):
        c = self.case
        body = S.name_wire(c['name'])
        if c['meta'] is not None:
            m = c['meta']
            mi = b''
            if m['content_type'] is not None:
                mi += T.enc_tlv(CONTENT_TYPE, T.enc_nni(m['content_type']))
            if m['freshness_period'] is not None:
                mi += T.enc_tlv(FRESHNESS, T.enc_nni(m['freshness_period']))
            if m['final_block_id'] is not None:
                mi += T.enc_tlv(FINAL_BLOCK, bytes.fromhex(m['final_block_id']))
            body += T.enc_tlv(META_INFO, mi)
        if payload is not None:
            body += T.enc_tlv(CONTENT, payload)
        if self.signed:
            body += ref_sig_info(SIG_INFO, self.spec, c, False)
        return body   # == signed portion for Data

    def interest_parts(self, payload):
        """-> (name component list incl. placeholder digest position, middle fields, params..siginfo bytes)"""
        c = self.case
        p = c['params']
        mid = b''
        if p['can_be_prefix']:
            mid += T.enc_tlv(CAN_BE_PREFIX)
        if p['must_be_fresh']:
            mid += T.enc_tlv(MUST_BE_FRESH)
        if p['forwarding_hint']:
            mid += T.enc_tlv(FWD_HINT, b''.join(S.name_wire(n) for n in p['forwarding_hint']))
        if p['nonce'] is not None:
            mid += T.enc_tlv(NONCE, p['nonce'].to_bytes(4, 'big'))
        if p['lifetime'] is not None:
            mid += T.enc_tlv(LIFETIME, T.enc_nni(p['lifetime']))
        if p['hop_limit'] is not None:
            mid += T.enc_tlv(HOP_LIMIT, bytes([p['hop_limit']]))
        tail = b''
        app = payload
        if self.signed and app is None:
            app = b''
        if app is not None:
            tail += T.enc_tlv(APP_PARAM, app)
        if self.signed:
            tail += ref_sig_info(ISIG_INFO, self.spec, c, True)
        return mid, tail, app

    def overhead(self):
        """Size of the packet with an empty payload and the *reserved* signature size."""
        r = reserved_size(self.spec) if self.signed else 0
        sv = len(T.enc_tlv(SIG_VALUE, b'\0' * r)) if self.signed else 0
        if self.kind == 'data':
            inner = len(self.data_prefix(b'')) + sv
        else:
            mid, tail, app = self.interest_parts(b'')
            ncomp = b''.join(T.enc_tlv(t, v) for t, v in self.name)
            if self.case['digest_pos'] is None:
                ncomp += b'\0' * 34
            inner = len(T.enc_tlv(NAME, ncomp)) + len(mid) + len(tail) + sv
        return len(T.enc_num(inner)) + 1 + inner

    def assemble(self, payload, sig_value):
        """Full expected wire given the signature value bytes (taken from the emitted packet)."""
        if self.kind == 'data':
            body = self.data_prefix(payload)
            signed_portion = body if self.signed else None
            if self.signed:
                body += T.enc_tlv(SIG_VALUE, sig_value)
            return T.enc_tlv(DATA, body), signed_portion, None
        mid, tail, app = self.interest_parts(payload)
        comps = [T.enc_tlv(t, v) for t, v in self.name]
        need_digest = app is not None
        sv = T.enc_tlv(ISIG_VALUE, sig_value) if self.signed else b''
        digest = hashlib.sha256(tail + sv).digest() if need_digest else None
        dpos = self.case['digest_pos']
        final = list(comps)
        if need_digest:
            if dpos is None:
                final.append(T.enc_tlv(2, digest))
                dpos = len(final) - 1
            else:
                final[dpos] = T.enc_tlv(2, digest)
        signed_portion = None
        if self.signed:
            signed_portion = b''.join(c for i, c in enumerate(final) if i != dpos) + tail
        wire = T.enc_tlv(INTEREST, T.enc_tlv(NAME, b''.join(final)) + mid + tail + sv)
        return wire, signed_portion, final


# ---- strict reader ----------------------------------------------------------------------------------
INTEREST_FIELDS = [NAME, CAN_BE_PREFIX, MUST_BE_FRESH, FWD_HINT, NONCE, LIFETIME, HOP_LIMIT, APP_PARAM, ISIG_INFO, ISIG_VALUE]
DATA_FIELDS = [NAME, META_INFO, CONTENT, SIG_INFO, SIG_VALUE]
META_FIELDS = [CONTENT_TYPE, FRESHNESS, FINAL_BLOCK]
SIGINFO_FIELDS = [SIG_TYPE, KEY_LOCATOR, SIG_NONCE, SIG_TIME, SIG_SEQ]
KEYLOC_FIELDS = [NAME, KEY_DIGEST]


def match_fields(buf, start, end, fields, ignore_critical=False, repeated=(), known_in_order=False):
    """NDN evolvability rule: a recognised field at or after the cursor is consumed; anything else is rejected
    if critical (odd type), skipped otherwise.  -> dict type -> element (or list for repeated)."""
    out = {}
    pos = 0
    for el in T.walk(buf, start, end):
        typ = el[0]
        i = next((j for j in range(pos, len(fields)) if fields[j] == typ), None)
        if i is None:
            if known_in_order and typ in fields and not (typ == 0x0344 and pos > 0 and fields[pos - 1] == 0x0344):
                # (NDNLPv2: its own header fields at most once and in order, whatever is done with unknown ones)
                raise T.Malformed(f'field {typ} repeated or out of order')
            if typ & 1 and not ignore_critical:
                raise T.Malformed(f'critical type {typ} unrecognised, repeated or out of order')
            continue
        if typ in repeated:
            out.setdefault(typ, []).append(el)
            pos = i
        else:
            out[typ] = el
            pos = i + 1
    return out


def strict_name(buf, el):
    typ, tl, vs, ve, _ = el
    if typ != NAME:
        raise T.Malformed('not a name')
    if T.CLAMP:
        # (clamping emulation of the one known finding) an element READ AS A NAME is never cut short by the library
        _t, p_, _m = T.read_num(buf, tl, len(buf))
        ln_, p2_, _m = T.read_num(buf, p_, len(buf))
        if p2_ + ln_ != ve:
            raise T.Malformed('a Name that overruns its container is refused, not clamped')
    comps = []
    T.NO_CLAMP_HERE = True      # the clamping emulation of the one known finding does not extend to name components
    try:
        for c in T.walk(buf, vs, ve):
            comps.append(bytes(buf[c[1]:c[3]]))
    finally:
        T.NO_CLAMP_HERE = False
    return comps


def _nni(buf, el, widths=(1, 2, 4, 8)):
    return T.dec_nni(bytes(buf[el[2]:el[3]]), widths)


def strict_siginfo(buf, el, ignore_critical=False, fields=None):
    f = match_fields(buf, el[2], el[3], fields or SIGINFO_FIELDS, ignore_critical)
    out = {'signature_type': _nni(buf, f[SIG_TYPE]) if SIG_TYPE in f else None, 'key_locator': None,
           'nonce': _nni(buf, f[SIG_NONCE]) if SIG_NONCE in f else None,
           'time': _nni(buf, f[SIG_TIME]) if SIG_TIME in f else None,
           'seq': _nni(buf, f[SIG_SEQ]) if SIG_SEQ in f else None}
    if KEY_LOCATOR in f:
        k = match_fields(buf, f[KEY_LOCATOR][2], f[KEY_LOCATOR][3], KEYLOC_FIELDS)
        out['key_locator'] = {'name': strict_name(buf, k[NAME]) if NAME in k else None,
                              'digest': bytes(buf[k[KEY_DIGEST][2]:k[KEY_DIGEST][3]]) if KEY_DIGEST in k else None}
    return out


def strict_data(wire):
    """Strict reading of a Data packet -> dict; raises T.Malformed."""
    buf = bytes(wire)
    el = T.single(buf)
    if el[0] != DATA:
        raise T.Malformed('not Data')
    f = match_fields(buf, el[2], el[3], DATA_FIELDS)
    if NAME not in f:
        raise T.Malformed('no name')
    out = {'name': strict_name(buf, f[NAME]), 'meta': None, 'content': None, 'sig_info': None, 'sig_value': None,
           'signed': None}
    if META_INFO in f:
        m = match_fields(buf, f[META_INFO][2], f[META_INFO][3], META_FIELDS)
        out['meta'] = {'content_type': _nni(buf, m[CONTENT_TYPE]) if CONTENT_TYPE in m else None,
                       'freshness_period': _nni(buf, m[FRESHNESS]) if FRESHNESS in m else None,
                       'final_block_id': bytes(buf[m[FINAL_BLOCK][2]:m[FINAL_BLOCK][3]]) if FINAL_BLOCK in m else None}
    if CONTENT in f:
        out['content'] = buf[f[CONTENT][2]:f[CONTENT][3]]
    if SIG_INFO in f:
        out['sig_info'] = strict_siginfo(buf, f[SIG_INFO], ignore_critical=True)
    if SIG_VALUE in f:
        out['sig_value'] = buf[f[SIG_VALUE][2]:f[SIG_VALUE][3]]
        out['signed'] = buf[f[NAME][1]:f[SIG_VALUE][1]]
    out['_off'] = {'signed': (f[NAME][1], f[SIG_VALUE][1]) if SIG_VALUE in f else None,
                   'siginfo': (f[SIG_INFO][1], f[SIG_INFO][3]) if SIG_INFO in f else None,
                   'sigvalue': (f[SIG_VALUE][2], f[SIG_VALUE][3]) if SIG_VALUE in f and f[SIG_VALUE][3] > f[SIG_VALUE][2] else None,
                   'digest': None, 'tl': (0, el[2])}
    return out


def strict_interest(wire):
    buf = bytes(wire)
    el = T.single(buf)
    if el[0] != INTEREST:
        raise T.Malformed('not Interest')
    f = match_fields(buf, el[2], el[3], INTEREST_FIELDS)
    if NAME not in f:
        raise T.Malformed('no name')
    name = strict_name(buf, f[NAME])
    out = {'name': name, 'can_be_prefix': CAN_BE_PREFIX in f, 'must_be_fresh': MUST_BE_FRESH in f,
           'nonce': _nni(buf, f[NONCE]) if NONCE in f else None,
           'lifetime': _nni(buf, f[LIFETIME]) if LIFETIME in f else None,
           'hop_limit': _nni(buf, f[HOP_LIMIT]) if HOP_LIMIT in f else None,
           'forwarding_hint': None, 'app_param': None, 'sig_info': None, 'sig_value': None, 'signed': None,
           'digest_covered': None, 'digest_comp': None}
    if FWD_HINT in f:
        fh = match_fields(buf, f[FWD_HINT][2], f[FWD_HINT][3], [NAME], repeated=(NAME,))
        out['forwarding_hint'] = [strict_name(buf, e) for e in fh.get(NAME, [])]
    if APP_PARAM in f:
        out['app_param'] = buf[f[APP_PARAM][2]:f[APP_PARAM][3]]
        out['digest_covered'] = buf[f[APP_PARAM][1]:el[3]]
    if ISIG_INFO in f:
        out['sig_info'] = strict_siginfo(buf, f[ISIG_INFO])
    if ISIG_VALUE in f:
        out['sig_value'] = buf[f[ISIG_VALUE][2]:f[ISIG_VALUE][3]]
        start = f[APP_PARAM][1] if APP_PARAM in f else (f[ISIG_INFO][1] if ISIG_INFO in f else f[ISIG_VALUE][1])
        out['signed'] = b''.join(c for c in name if T.read_num(c, 0, len(c))[0] != 2) + buf[start:f[ISIG_VALUE][1]]
    dig = [c for c in name if T.read_num(c, 0, len(c))[0] == 2]
    if len(dig) > 1:
        # NDN packet format: an Interest name has at most one ParametersSha256DigestComponent (it is the one component the signature
        # does not cover)
        raise T.Malformed('more than one ParametersSha256DigestComponent')
    if dig:
        d = dig[-1]
        v = T.read_tlv(d, 0, len(d))
        out['digest_comp'] = d[v[2]:v[3]]
    out['n_digest_comps'] = len(dig)
    doff = None
    for c in T.walk(buf, f[NAME][2], f[NAME][3]):
        if c[0] == 2 and c[3] > c[2]:
            doff = (c[2], c[3])
    out['_off'] = {'signed': (f[NAME][2], f[ISIG_VALUE][1]) if ISIG_VALUE in f else (f[NAME][2], el[3]),
                   'siginfo': (f[ISIG_INFO][1], f[ISIG_INFO][3]) if ISIG_INFO in f else None,
                   'sigvalue': (f[ISIG_VALUE][2], f[ISIG_VALUE][3]) if ISIG_VALUE in f and f[ISIG_VALUE][3] > f[ISIG_VALUE][2] else None,
                   'digest': doff, 'tl': (0, el[2])}
    return out


# ---- NDNLPv2 and certificate strict readers ------------------------------------------------------------
LP_PACKET, LP_FRAGMENT = 0x64, 0x50
# header fields in ascending TLV-TYPE order, Fragment last (NDNLPv2 / ndn-cxx lp::Packet)
LP_FIELDS = [0x52, 0x53, 0x62, 0x0320, 0x032C, 0x0330, 0x0334, 0x0340, 0x0344, 0x0348, 0x034C, 0x0350, 0x50]
LP_INT_FIELDS = {0x52: 'frag_index', 0x53: 'frag_count', 0x032C: 'incoming_face_id', 0x0330: 'next_hop_face_id',
                 0x0340: 'congestion_mark'}
LP_BYTES_FIELDS = {0x62: 'pit_token', 0x0344: 'ack', 0x0348: 'tx_sequence', 0x0350: 'prefix_announcement', 0x50: 'fragment'}


def strict_lp(wire, allow_frag=False):
    buf = bytes(wire)
    el = T.single(buf)
    if el[0] != LP_PACKET:
        raise T.Malformed('not LpPacket')
    f = match_fields(buf, el[2], el[3], LP_FIELDS, ignore_critical=True, known_in_order=True)
    out = {'nack': None, 'nack_reason': None, 'non_discovery': 0x034C in f, 'cache_policy_type': None}
    for t, nm in LP_INT_FIELDS.items():
        out[nm] = _nni(buf, f[t]) if t in f else None
    for t, nm in LP_BYTES_FIELDS.items():
        out[nm] = buf[f[t][2]:f[t][3]] if t in f else None
    if 0x0320 in f:
        out['nack'] = True
        n = match_fields(buf, f[0x0320][2], f[0x0320][3], [0x0321])
        out['nack_reason'] = _nni(buf, n[0x0321]) if 0x0321 in n else None
    if 0x0334 in f:
        n = match_fields(buf, f[0x0334][2], f[0x0334][3], [0x0335])
        out['cache_policy_type'] = _nni(buf, n[0x0335]) if 0x0335 in n else None
        out['cache_policy'] = True
    if (out['frag_index'] is not None or out['frag_count'] is not None) and not allow_frag:
        raise T.Malformed('fragmentation unsupported')
    return out


VALIDITY, NOT_BEFORE, NOT_AFTER, ADD_DESC, DESC_ENTRY, DESC_KEY, DESC_VALUE = 0xFD, 0xFE, 0xFF, 0x0102, 0x0200, 0x0201, 0x0202
CERT_SIGINFO_FIELDS = SIGINFO_FIELDS + [VALIDITY, ADD_DESC]


def strict_cert(wire):
    buf = bytes(wire)
    el = T.single(buf)
    if el[0] != DATA:
        raise T.Malformed('not Data')
    f = match_fields(buf, el[2], el[3], DATA_FIELDS)
    if NAME not in f:
        raise T.Malformed('no name')
    out = strict_data(buf)
    out['validity'] = None
    out['descriptions'] = None
    if SIG_INFO in f:
        s = match_fields(buf, f[SIG_INFO][2], f[SIG_INFO][3], CERT_SIGINFO_FIELDS, ignore_critical=True)
        out['sig_info'] = strict_siginfo(buf, f[SIG_INFO], ignore_critical=True, fields=CERT_SIGINFO_FIELDS)
        if VALIDITY in s:
            v = match_fields(buf, s[VALIDITY][2], s[VALIDITY][3], [NOT_BEFORE, NOT_AFTER])
            out['validity'] = (buf[v[NOT_BEFORE][2]:v[NOT_BEFORE][3]] if NOT_BEFORE in v else None,
                               buf[v[NOT_AFTER][2]:v[NOT_AFTER][3]] if NOT_AFTER in v else None)
        if ADD_DESC in s:
            d = match_fields(buf, s[ADD_DESC][2], s[ADD_DESC][3], [DESC_ENTRY], repeated=(DESC_ENTRY,))
            ents = []
            for e in d.get(DESC_ENTRY, []):
                kv = match_fields(buf, e[2], e[3], [DESC_KEY, DESC_VALUE])
                ents.append((buf[kv[DESC_KEY][2]:kv[DESC_KEY][3]] if DESC_KEY in kv else None,
                             buf[kv[DESC_VALUE][2]:kv[DESC_VALUE][3]] if DESC_VALUE in kv else None))
            out['descriptions'] = ents
    return out


def strict_name_wire(wire):
    buf = bytes(wire)
    el = T.read_tlv(buf, 0, len(buf))     # Name.from_bytes tolerates trailing bytes (decode returns a length)
    return strict_name(buf, el)
