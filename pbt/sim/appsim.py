"""
Adapters that run either application front-end (ndn.appv2.NDNApp / ndn.app.NDNApp) inside its real main_loop()
on the virtual loop with an in-memory face, and expose one uniform driver API for the history checks.
"""
import asyncio
import traceback

import ndn.app as legacy_mod
import ndn.appv2 as v2_mod
from ndn import types
from ndn.encoding import InterestParam
from ndn.security import KeychainDigest
from ndn.transport.prefix_registerer import PrefixRegisterer

from . import net
from .vloop import VLoop


class NullRegisterer(PrefixRegisterer):
    async def register(self, name):
        return True

    async def unregister(self, name):
        return True


def exc_site(e):
    tb = traceback.extract_tb(e.__traceback__)
    where = next((f.name for f in reversed(tb) if '/ndn/' in f.filename), '?')
    return f'{type(e).__name__}@{where}'


class Expressed:
    """One expressed Interest as seen by the harness."""

    def __init__(self, idx):
        self.idx = idx
        self.task = None
        self.done_count = 0
        self.outcome = None        # ('data', name_bytes_list, content) | ('exc', type name, attrs)
        self.done_ms = None
        self.t0_ms = None
        self.wire = None           # Interest bytes seen on the face
        self.express_error = None  # exception raised synchronously by express()
        self.validator_calls = []  # (start_ms, end_ms or None)
        self.awaiting = False      # the application has started awaiting the result


class FalsyCallable:
    """A validator / handler that is a callable OBJECT which is falsy while it is 'empty' (it has a __len__): a legal callable."""

    def __init__(self, fn):
        self.fn = fn

    def __len__(self):
        return 0

    def __call__(self, *a, **k):
        return self.fn(*a, **k)


SHAPES = ['falsy', 'lambda', 'object', 'async-object', 'partial', 'future', 'wrapped', 'bound']


def shape_callable(fn, shape):
    """`fn` (a coroutine function) handed over in another LEGAL form of 'a callable that returns an awaitable': what the library
    does with it is call it and await what it returns.  shape True == 'falsy'."""
    import functools
    if not shape:
        return fn
    if shape is True or shape == 'falsy':
        return FalsyCallable(fn)
    if shape == 'lambda':
        return lambda *a, **k: fn(*a, **k)                 # a plain function returning a coroutine
    if shape == 'object':
        class _Policy:                                     # an object whose plain __call__ returns a coroutine
            def __call__(self, *a, **k):
                return fn(*a, **k)
        return _Policy()
    if shape == 'async-object':
        class _APolicy:
            async def __call__(self, *a, **k):
                return await fn(*a, **k)
        return _APolicy()
    if shape == 'partial':
        return functools.partial(lambda _tag, *a, **k: fn(*a, **k), 'tag')
    if shape == 'future':
        # a plain function returning a Task (an awaitable that is not a coroutine), e.g. work handed to another task / executor
        return lambda *a, **k: asyncio.ensure_future(fn(*a, **k))
    if shape == 'wrapped':
        @functools.wraps(fn)
        def _wrapper(*a, **k):
            return fn(*a, **k)
        return _wrapper
    if shape == 'bound':
        class _Owner:
            async def check(self, *a, **k):
                return await fn(*a, **k)
        return _Owner().check
    raise ValueError(shape)


class AppSim:
    def __init__(self, frontend: str, registerer=None, vl=None, local=True):
        self.frontend = frontend
        self.owns_loop = vl is None
        self.vl = vl or VLoop()
        self.face = net.MemFace()
        self.face.local = local
        if frontend == 'v2' and registerer == 'default':
            self.app = v2_mod.NDNApp(face=self.face)      # whatever registerer the library installs by default
        elif frontend == 'v2':
            self.app = v2_mod.NDNApp(face=self.face, registerer=registerer or NullRegisterer())
        else:
            self.app = legacy_mod.NDNApp(face=self.face, keychain=KeychainDigest())
        self.receive_errors = []      # exceptions that escaped _receive
        self.expressed = []
        self.main_task = None
        self.main_result = None

    # -- lifecycle ------------------------------------------------------------------------
    def start(self):
        async def _start():
            self.main_task = asyncio.get_running_loop().create_task(self.app.main_loop())
        self.vl.run(_start())
        self.vl.settle()

    def shutdown(self):
        self.vl.call(self.app.shutdown)
        self.vl.settle()

    def finish(self):
        """Shut down (if still running) and wait for main_loop to return; -> exception of main_loop or None."""
        if self.face.running:
            self.shutdown()
        err = None
        if self.main_task is not None:
            self.vl.advance(0.01)
            if not self.main_task.done():
                err = 'main_loop did not return after shutdown'
            elif self.main_task.cancelled():
                err = 'main_loop cancelled'
            elif self.main_task.exception() is not None:
                err = f'main_loop raised {self.main_task.exception()!r}'
        return err

    def renew_loop(self):
        """The application object is run again in a FRESH event loop (what a second run_forever() / asyncio.run does);
        the clock goes on."""
        t = self.vl.clock.t
        self.vl.close()
        self.vl = VLoop()
        self.vl.clock.t = t + 0.5
        self.main_task = None

    def close(self):
        if self.owns_loop:
            self.vl.close()

    # -- pending table (secondary observation; tolerant to renames) ----------------------------
    def pending_size(self):
        try:
            tree = self.app._pit if self.frontend == 'v2' else self.app._int_tree
            return len(tree)
        except Exception:
            return None

    # -- receive ---------------------------------------------------------------------------------
    def deliver(self, wire: bytes, mode='await'):
        typ = net.outer_type(wire)

        async def _guard():
            try:
                await self.app.face.callback(typ, wire)
            except Exception as e:  # noqa - this is the observation
                self.receive_errors.append(exc_site(e) + f': {e!r}'[:200])
        if mode == 'await':
            self.vl.run(_guard())
        else:
            async def _spawn():
                asyncio.get_running_loop().create_task(_guard())
            self.vl.run(_spawn())
        self.vl.settle()

    # -- express ----------------------------------------------------------------------------------
    def express(self, name, lifetime=4000, can_be_prefix=False, must_be_fresh=False, vlat=0.0, verdict=True,
                validator='default', app_param=None, signer=None, nonce=1234, await_after=0.0, shared_param=False,
                falsy_validator=False, gate=None, send_fails=False):
        """name: list of component bytes.  vlat seconds.  verdict: ValidResult (v2) / truthy (legacy)."""
        h = Expressed(len(self.expressed))
        self.expressed.append(h)
        vl = self.vl

        async def _wait():
            if gate is not None:
                # several validators wait for ONE thing that is in flight (e.g. a certificate being fetched): a future shared by
                # all of them, resolved at the absolute time `gate` (seconds on the virtual clock)
                await self.gate_future(gate)
            elif vlat is not None:
                await asyncio.sleep(vlat)

        if self.frontend == 'v2':
            async def _validator(_n, _s, _ctx):
                rec = [vl.now_ms(), None]
                h.validator_calls.append(rec)
                await _wait()
                rec[1] = vl.now_ms()
                return verdict
        else:
            async def _validator(_n, _s):
                rec = [vl.now_ms(), None]
                h.validator_calls.append(rec)
                await _wait()
                rec[1] = vl.now_ms()
                return verdict
        if falsy_validator:
            _validator = shape_callable(_validator, falsy_validator)
        if validator == 'none':
            _validator = None
        elif validator == 'stock':
            # the validator objects the library ships: appv2.pass_all / the legacy application-wide default
            _validator = v2_mod.pass_all if self.frontend == 'v2' else None

        async def _await(coro):
            h.awaiting = True
            try:
                res = await coro
                if self.frontend == 'v2':
                    dname, content, ctx = res
                else:
                    dname, _mi, content = res[:3]
                h.outcome = ('data', [bytes(c) for c in dname], None if content is None else bytes(content))
            except asyncio.CancelledError:
                h.outcome = ('exc', 'CancelledError', {})
                h.done_count += 1
                h.done_ms = vl.now_ms()
                raise
            except BaseException as e:  # noqa
                attrs = {}
                if isinstance(e, types.InterestNack):
                    attrs['reason'] = e.reason
                if isinstance(e, types.ValidationFailure):
                    attrs['vf'] = e
                attrs['site'] = exc_site(e)
                h.outcome = ('exc', type(e).__name__, attrs)
            h.done_count += 1
            h.done_ms = vl.now_ms()

        def _param():
            if not shared_param:
                return InterestParam(can_be_prefix=can_be_prefix, must_be_fresh=must_be_fresh, nonce=nonce, lifetime=lifetime)
            ip = self.__dict__.setdefault('_shared_ip', InterestParam())
            ip.can_be_prefix, ip.must_be_fresh, ip.nonce, ip.lifetime = can_be_prefix, must_be_fresh, nonce, lifetime
            return ip

        def _do():
            before = len(self.face.sent)
            h.t0_ms = vl.now_ms()
            if send_fails:
                # the transport refuses this one packet (a datagram too long for the link, a transient OSError): the caller gets
                # the transport's exception, and the Interest - which never left - is not pending
                plain_send = self.face.send

                def failing_send(_data):
                    raise OSError(90, 'Message too long')
                self.face.send = failing_send
            try:
                if self.frontend == 'v2':
                    coro = self.app.express(name, _validator, app_param=app_param, signer=signer, interest_param=_param())
                else:
                    kw = {}
                    if signer is not None:
                        kw['signer'] = signer
                    coro = self.app.express_interest(name, app_param=app_param, validator=_validator, interest_param=_param(), **kw)
            except Exception as e:
                h.express_error = e
                return
            finally:
                if send_fails:
                    self.face.send = plain_send
            if len(self.face.sent) > before:
                h.wire = self.face.sent[before]
            if await_after > 0:
                # the application does something else first and awaits the result only later
                async def _later():
                    await asyncio.sleep(await_after)
                    await _await(coro)
                h.task = asyncio.get_running_loop().create_task(_later())
            else:
                h.task = asyncio.get_running_loop().create_task(_await(coro))
        self.vl.call(_do)
        self.vl.settle()
        return h

    def gate_future(self, at):
        gates = self.__dict__.setdefault('_gates', {})
        if at not in gates:
            loop = asyncio.get_running_loop()
            fut = loop.create_future()
            gates[at] = fut
            delay = max(0.0, at - self.vl.clock.t)
            loop.call_later(delay, lambda: fut.done() or fut.set_result(None))
        return gates[at]

    def deliver_then_cancel(self, wire: bytes, h: Expressed):
        """The face has just handed a packet to the application (its reception task is scheduled but has not run yet) when the
        caller gives up on h - both in the same loop iteration."""
        typ = net.outer_type(wire)

        async def _guard():
            try:
                await self.app.face.callback(typ, wire)
            except Exception as e:  # noqa - this is the observation
                self.receive_errors.append(exc_site(e) + f': {e!r}'[:200])

        def both():
            asyncio.get_running_loop().create_task(_guard())
            if h.task is not None and not h.task.done():
                h.task.cancel()
        self.vl.call(both)
        self.vl.settle()

    def cancel(self, h: Expressed):
        if h.task is not None and not h.task.done():
            self.vl.call(h.task.cancel)
        self.vl.settle()
