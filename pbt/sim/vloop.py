"""
Virtual-time asyncio loop.  The selector never blocks: select(t) advances a fake clock by t and returns no
events; select(None) with nothing runnable is a deadlock (harness error).  All library time sources are
redirected to this clock.  No real sleep, no wall clock.
"""
import asyncio
import gc
import selectors

from ..core import HarnessError

EPOCH_S = 1_700_000_000.0      # wall time corresponding to loop.time() == 0


class Deadlock(HarnessError):
    pass


class _VSelector(selectors.BaseSelector):
    def __init__(self, clock):
        self.clock = clock
        self._keys = {}

    def register(self, fileobj, events, data=None):
        key = selectors.SelectorKey(fileobj, fileobj if isinstance(fileobj, int) else fileobj.fileno(), events, data)
        self._keys[key.fd] = key
        return key

    def unregister(self, fileobj):
        fd = fileobj if isinstance(fileobj, int) else fileobj.fileno()
        return self._keys.pop(fd, None)

    def modify(self, fileobj, events, data=None):
        self.unregister(fileobj)
        return self.register(fileobj, events, data)

    def select(self, timeout=None):
        if timeout is None:
            raise Deadlock('virtual loop would block forever (nothing scheduled)')
        if timeout > 0:
            self.clock.t += timeout
        return []

    def close(self):
        self._keys.clear()

    def get_map(self):
        return {k.fileobj: k for k in self._keys.values()}

    def get_key(self, fileobj):
        fd = fileobj if isinstance(fileobj, int) else fileobj.fileno()
        return self._keys[fd]


class _Clock:
    def __init__(self):
        self.t = 1000.0
        self.wall = 0.0       # offset of the WALL clock (time.time) against the loop's monotonic clock: it may be stepped


class _TimeShim:
    """Stands in for the `time` module inside library modules."""

    def __init__(self, clock):
        self._c = clock

    def time(self):
        return EPOCH_S + self._c.t + self._c.wall

    def time_ns(self):
        return int((EPOCH_S + self._c.t + self._c.wall) * 1e9)

    def monotonic(self):
        return self._c.t


class VLoop:
    def __init__(self):
        self.clock = _Clock()
        self.loop = asyncio.SelectorEventLoop(_VSelector(self.clock))
        self.loop.time = lambda: self.clock.t
        self.loop._clock_resolution = 1e-9
        self.errors = []          # unhandled exceptions reported to the loop
        self.loop.set_exception_handler(self._on_error)
        self.shim = _TimeShim(self.clock)
        import ndn.utils as u
        self._saved = (u, u.time)
        u.time = self.shim

    def _on_error(self, loop, ctx):
        exc = ctx.get('exception')
        self.errors.append({'message': ctx.get('message', ''), 'exc': repr(exc),
                            'type': type(exc).__name__ if exc is not None else None})

    # -- time ---------------------------------------------------------------------------
    def now_ms(self) -> int:
        return int((EPOCH_S + self.clock.t) * 1000)

    def run(self, coro):
        return self.loop.run_until_complete(coro)

    def call(self, fn, *a, **k):
        """Run a plain function inside the running loop (so get_running_loop works)."""
        async def _w():
            return fn(*a, **k)
        return self.run(_w())

    def settle(self, limit=2000):
        """Run everything that is ready *now*, without advancing the clock."""
        for _ in range(limit):
            self.run(asyncio.sleep(0))
            if not self.loop._ready:
                return
        raise HarnessError('settle(): loop never becomes idle')

    def advance(self, seconds: float):
        self.settle()
        if seconds > 0:
            self.run(asyncio.sleep(seconds))
            self.settle()

    def advance_to(self, t: float):
        self.advance(max(0.0, t - self.clock.t))

    def close(self):
        try:
            # cancel leftovers so nothing outlives the case
            pending = [t for t in asyncio.all_tasks(self.loop) if not t.done()]
            for t in pending:
                try:
                    t.cancel()
                except RecursionError:      # (an await chain thousands of levels deep, left behind by a run-away case)
                    pass
            if pending:
                try:
                    self.run(asyncio.wait_for(asyncio.gather(*pending, return_exceptions=True), 5))
                except BaseException:  # noqa
                    pass
        finally:
            u, t = self._saved
            u.time = t
            self.loop.close()
            gc.collect()

    def collect_errors(self):
        """Force 'exception was never retrieved' reports, then return and clear the error list."""
        gc.collect()
        self.settle()
        errs, self.errors = self.errors, []
        return errs
