"""In-memory face and reference-built network packets for the app-level simulations."""
import asyncio
import hashlib

from ndn.transport.face import Face

from ..refs import tlv as T

LP_PACKET, FRAGMENT, PIT_TOKEN, NACK, NACK_REASON = 0x64, 0x50, 0x62, 0x0320, 0x0321
FRAG_INDEX, FRAG_COUNT = 0x52, 0x53


class MemFace(Face):
    """A Face whose run() blocks until shutdown(); everything sent is recorded."""

    def __init__(self):
        super().__init__()
        self.sent = []
        self._stop = None
        self.opened = 0

    open_delay = 0.0     # seconds the connection takes to come up

    async def open(self):
        if self.open_delay:
            await asyncio.sleep(self.open_delay)
        self.running = True
        self.opened += 1
        self._stop = asyncio.get_running_loop().create_future()

    def shutdown(self):
        self.running = False
        if self._stop is not None and not self._stop.done():
            self._stop.set_result(None)

    def send(self, data: bytes):
        self.sent.append(bytes(data))

    async def run(self):
        await self._stop

    def fail(self, exc):
        """The transport breaks: run() ends by raising (what a stream face does on a broken pipe)."""
        self.running = False
        if self._stop is not None and not self._stop.done():
            self._stop.set_exception(exc)

    local = True

    on_local_check = None     # optional hook: time may pass while the application builds a command

    def isLocalFace(self):
        if self.on_local_check is not None:
            self.on_local_check()
        return self.local

    def take(self):
        out, self.sent = self.sent, []
        return out


def comp(s) -> bytes:
    """generic component from str/bytes"""
    if isinstance(s, str):
        s = s.encode()
    return T.enc_tlv(8, s)


def name_wire(comps) -> bytes:
    return T.enc_tlv(7, b''.join(comps))


def data_wire(comps, content=b'', freshness=None, sig='digest', content_type=None, final_block=None) -> bytes:
    """Reference-encoded Data with a DigestSha256 signature (or none)."""
    body = name_wire(comps)
    mi = b''
    if content_type is not None:
        mi += T.enc_tlv(0x18, T.enc_nni(content_type))
    if freshness is not None:
        mi += T.enc_tlv(0x19, T.enc_nni(freshness))
    if final_block is not None:
        mi += T.enc_tlv(0x1a, final_block)
    if mi:
        body += T.enc_tlv(0x14, mi)
    if content is not None:
        body += T.enc_tlv(0x15, content)
    if sig == 'digest':
        body += T.enc_tlv(0x16, T.enc_tlv(0x1b, b'\x00'))
        body += T.enc_tlv(0x17, hashlib.sha256(body).digest())
    elif sig in ('shortdigest', 'emptydigest', 'longdigest'):
        # a value of the wrong length that agrees with the right digest as far as it goes
        body += T.enc_tlv(0x16, T.enc_tlv(0x1b, b'\x00'))
        d = hashlib.sha256(body).digest()
        body += T.enc_tlv(0x17, {'shortdigest': d[:31], 'emptydigest': b'', 'longdigest': d + b'\x00'}[sig])
    elif sig == 'baddigest':
        body += T.enc_tlv(0x16, T.enc_tlv(0x1b, b'\x00'))
        body += T.enc_tlv(0x17, b'\x00' * 32)
    return T.enc_tlv(6, body)


def interest_wire(comps, can_be_prefix=False, must_be_fresh=False, nonce=None, lifetime=None, app_param=None,
                  bad_digest=False, no_digest=False, sig_info=None, sig_value=None, omit_sig_value=False) -> bytes:
    """Reference-encoded Interest.  With app_param / signature a ParametersSha256 component is appended."""
    mid = b''
    if can_be_prefix:
        mid += T.enc_tlv(0x21)
    if must_be_fresh:
        mid += T.enc_tlv(0x12)
    if nonce is not None:
        mid += T.enc_tlv(0x0a, nonce.to_bytes(4, 'big'))
    if lifetime is not None:
        mid += T.enc_tlv(0x0c, T.enc_nni(lifetime))
    tail = b''
    if app_param is not None:
        tail += T.enc_tlv(0x24, app_param)
    if sig_info is not None:
        tail += T.enc_tlv(0x2c, sig_info)
        sv = sig_value
        if sv is None:  # DigestSha256 over name + params + siginfo
            sv = hashlib.sha256(b''.join(comps) + tail).digest()
        if not omit_sig_value:
            tail += T.enc_tlv(0x2e, sv)
    comps = list(comps)
    if tail and not no_digest:
        d = hashlib.sha256(tail).digest()
        if bad_digest:
            d = bytes([d[0] ^ 1]) + d[1:]
        comps.append(T.enc_tlv(2, d))
    return T.enc_tlv(5, name_wire(comps) + mid + tail)


def lp_wrap(fragment, nack_reason=None, nack=False, pit_token=None, extra=(), frag_index=None, frag_count=None, trailing=(),
            frag_after=None) -> bytes:
    """LpPacket with headers in type-number order.  extra: list of (type, value-bytes).
    frag_after=<type>: a sender that writes the fragmentation headers out of place - right behind the header of that type
    (FRAGMENT: behind the payload)."""
    hdr = []
    late = []
    if frag_index is not None:
        (late if frag_after is not None else hdr).append((FRAG_INDEX, T.enc_nni(frag_index)))
    if frag_count is not None:
        (late if frag_after is not None else hdr).append((FRAG_COUNT, T.enc_nni(frag_count)))
    if pit_token is not None:
        hdr.append((PIT_TOKEN, pit_token))
    if nack or nack_reason is not None:
        hdr.append((NACK, T.enc_tlv(NACK_REASON, T.enc_nni(nack_reason)) if nack_reason is not None else b''))
    hdr.extend(extra)
    hdr.sort(key=lambda h: h[0])   # NDNLPv2 / ndn-cxx: header fields in ascending type order, Fragment last
    if late and frag_after != FRAGMENT:
        at = max((i + 1 for i, h in enumerate(hdr) if h[0] == frag_after), default=len(hdr))
        hdr[at:at] = late
        late = []
    body = b''.join(T.enc_tlv(t, v) for t, v in hdr)
    if fragment is not None:
        body += T.enc_tlv(FRAGMENT, fragment)
    body += b''.join(T.enc_tlv(t, v) for t, v in late)
    # (fields some sender put behind the Fragment: unrecognised ones are ignored wherever they stand)
    body += b''.join(T.enc_tlv(t, v) for t, v in trailing)
    return T.enc_tlv(LP_PACKET, body)


def outer_type(wire) -> int:
    return T.read_num(wire, 0, len(wire))[0]


class debug_logging:
    """Run a block with the library's loggers at DEBUG and a handler that formats every record (into a sink):
    what the application observes must not depend on the logging level."""

    def __init__(self, enabled=True):
        self.enabled = enabled
        self.records = 0

    def __enter__(self):
        import logging
        if not self.enabled:
            return self
        outer = self

        class _Sink(logging.Handler):
            def emit(self, record):
                outer.records += 1
                record.getMessage()
        self.lg = logging.getLogger('ndn')
        self.h = _Sink()
        self.old = (self.lg.level, self.lg.propagate)
        self.lg.addHandler(self.h)
        self.lg.setLevel(logging.DEBUG)
        self.lg.propagate = False
        return self

    def __exit__(self, *a):
        if self.enabled:
            self.lg.removeHandler(self.h)
            self.lg.setLevel(self.old[0])
            self.lg.propagate = self.old[1]
        return False
