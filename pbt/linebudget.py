"""Deterministic 'time proportional to input' check: count executed lines of library code with sys.monitoring."""
import sys

TOOL = 4


class BudgetExceeded(Exception):
    pass


class LineBudget:
    def __init__(self, limit, path_part='/ndn/'):
        self.limit = limit
        self.count = 0
        self.path_part = path_part

    def __enter__(self):
        mon = sys.monitoring
        try:
            mon.use_tool_id(TOOL, 'verif-linebudget')
        except ValueError:
            mon.free_tool_id(TOOL)
            mon.use_tool_id(TOOL, 'verif-linebudget')

        def on_line(code, line):
            if self.path_part in code.co_filename:
                self.count += 1
                if self.count > self.limit:
                    raise BudgetExceeded(f'{self.count} lines')
            else:
                return mon.DISABLE
        mon.register_callback(TOOL, mon.events.LINE, on_line)
        mon.set_events(TOOL, mon.events.LINE)
        return self

    def __exit__(self, *a):
        mon = sys.monitoring
        mon.set_events(TOOL, 0)
        mon.register_callback(TOOL, mon.events.LINE, None)
        mon.free_tool_id(TOOL)
        mon.restart_events()
        return False
