"""Shared machinery: cases, violations, known findings, Hypothesis driving, evidence."""
import dataclasses as dc
import fnmatch
import hashlib
import json
import os
import time
import traceback
from typing import Any, Callable

import hypothesis
from hypothesis import HealthCheck, Phase, given, settings
from hypothesis import strategies as st

ROOT = os.path.dirname(os.path.dirname(os.path.abspath(__file__)))


class HarnessError(Exception):
    pass


class ViolationFound(Exception):
    def __init__(self, signature, detail, subcheck, replay):
        super().__init__(signature)
        self.signature, self.detail, self.subcheck, self.replay = signature, detail, subcheck, replay


class _Fail(Exception):
    pass


@dc.dataclass
class Violation:
    signature: str          # stable: <ID>/<subcheck>/<kind>[/<discriminator>]
    detail: str = ''


@dc.dataclass
class Result:
    violations: list = dc.field(default_factory=list)
    key: Any = None         # classification key when the case is NON-TRIVIAL by the check's rule, else None
    classes: tuple = ()     # labels for the generator-distribution histogram
    discarded: bool = False  # case outside the property's domain (counted, not evaluated)

    def bad(self, signature, detail=''):
        self.violations.append(Violation(signature, str(detail)[:600]))
        return self


@dc.dataclass
class SubCheck:
    run_case: Callable                     # case(JSON) -> Result
    strategy: Callable = None              # tier -> hypothesis strategy of JSON cases
    enumerate: Callable = None             # tier -> iterable of JSON cases (deterministic order)
    examples: dict = dc.field(default_factory=lambda: {'quick': 200, 'thorough': 5000})
    exhaustive: dict = dc.field(default_factory=dict)   # tier -> bool: the enumeration is a complete finite space
    note: str = ''
    shrink_budget_s: float = 45.0
    external: Callable = None              # (ctx, name) -> None : e.g. a coverage-guided fuzz campaign in a subprocess


class Findings:
    def __init__(self, property_id):
        self.property_id = property_id
        self.entries = []
        path = os.path.join(ROOT, 'known_findings.json')
        if os.path.exists(path):
            with open(path) as f:
                data = json.load(f)
            self.entries = [e for e in data.get('entries', [])
                            if e.get('property') == property_id and e.get('status') == 'known']

    def match(self, v: Violation):
        for e in self.entries:
            if fnmatch.fnmatchcase(v.signature, e['signature']):
                return e
        return None

    def is_known(self, v):
        return self.match(v) is not None


def jhash(obj) -> str:
    return hashlib.sha1(json.dumps(obj, sort_keys=True, default=str).encode()).hexdigest()[:16]


class Ctx:
    def __init__(self, property_id, tier, seed, shard, nshards, only=None):
        self.property_id, self.tier, self.seed = property_id, tier, seed
        self.shard, self.nshards = shard, nshards
        self.only = set(only.split(',')) if only else None
        self.findings = Findings(property_id)
        self.sub = {}            # name -> stats
        self.violation = None
        self.harness_error = None
        self.wall = 0.0
        self.collected = {}

    # -- stats -------------------------------------------------------------------------
    def _stats(self, name):
        return self.sub.setdefault(name, {'evaluations': 0, 'discarded': 0, 'keys': set(), 'classes': {},
                                          'samples': [], 'known_hits': {}, 'exhaustive': False,
                                          'truncated': False, 'wall': 0.0})

    def execute_case(self, sub: SubCheck, case, name='?'):
        res = sub.run_case(case)
        if not isinstance(res, Result):
            raise HarnessError(f'{name}: run_case returned {type(res)}')
        s = self._stats(name)
        if res.discarded:
            s['discarded'] += 1
            return []
        s['evaluations'] += 1
        for c in res.classes:
            s['classes'][c] = s['classes'].get(c, 0) + 1
        if res.key is not None:
            k = res.key if isinstance(res.key, str) else jhash(res.key)
            if k not in s['keys']:
                if len(s['keys']) < 400000:
                    s['keys'].add(k)
                if len(s['samples']) < 3:
                    s['samples'].append(_clip(case))
        elif not s['samples'] and s['evaluations'] == 1:
            s['first'] = _clip(case)
        for v in res.violations:
            e = self.findings.match(v)
            if e is not None:
                kh = s['known_hits'].setdefault(e['signature'], {'count': 0, 'what': e.get('what', ''),
                                                                 'example': v.detail})
                kh['count'] += 1
        return res.violations

    # -- driving -----------------------------------------------------------------------
    def run_module(self, mod):
        corpus_dir = os.path.join(ROOT, 'corpus', self.property_id)
        if self.shard == 0 and os.path.isdir(corpus_dir):
            for fn in sorted(os.listdir(corpus_dir)):
                if fn.endswith('.json'):
                    with open(os.path.join(corpus_dir, fn)) as f:
                        rec = json.load(f)
                    if rec.get('subcheck') in mod.SUBCHECKS and (not self.only or rec['subcheck'] in self.only):
                        self._one(mod.SUBCHECKS[rec['subcheck']], rec['subcheck'], rec['case'], corpus=fn)
        for name, sub in mod.SUBCHECKS.items():
            if self.only and name not in self.only:
                continue
            t0 = time.time()
            if sub.enumerate is not None:
                self._run_enum(name, sub)
            if sub.strategy is not None:
                self._run_given(name, sub)
            if sub.external is not None:
                sub.external(self, name)
            self._stats(name)['wall'] += time.time() - t0

    def _unknown(self, vs):
        if os.environ.get('VERIF_COLLECT'):
            # bucketing mode (development aid): never stop, count every signature
            for v in vs:
                c = self.collected.setdefault(v.signature, [0, v.detail])
                c[0] += 1
            return []
        return [v for v in vs if not self.findings.is_known(v)]

    def _one(self, sub, name, case, corpus=None):
        vs = self.execute_case(sub, case, name)
        bad = self._unknown(vs)
        if bad:
            path = self._save_replay(name, case, bad[0])
            raise ViolationFound(bad[0].signature, bad[0].detail, name, path)

    def _save_replay(self, name, case, v):
        d = os.path.join(ROOT, 'replays', self.property_id)
        os.makedirs(d, exist_ok=True)
        path = os.path.join(d, f'{name}-{jhash(case)}.json')
        with open(path, 'w') as f:
            json.dump({'property': self.property_id, 'subcheck': name, 'signature': v.signature,
                       'detail': v.detail, 'case': case}, f, indent=1, default=str)
        return os.path.relpath(path, ROOT)

    def _run_enum(self, name, sub):
        s = self._stats(name)
        n = 0
        for i, case in enumerate(sub.enumerate(self.tier)):
            if i % self.nshards != self.shard:
                continue
            self._one(sub, name, case)
            n += 1
        s['exhaustive'] = bool(sub.exhaustive.get(self.tier, False))

    def _run_given(self, name, sub):
        total = sub.examples.get(self.tier, 100)
        per = max(1, -(-total // self.nshards))
        state = {'best': None, 'best_v': None, 'first_fail_t': None, 'abort': None}
        ctx = self
        subseed = self.seed * 1000 + self.shard

        @hypothesis.seed(subseed)
        @settings(max_examples=per, database=None, deadline=None, derandomize=False,
                  report_multiple_bugs=False, print_blob=False,
                  suppress_health_check=list(HealthCheck),
                  phases=[Phase.generate, Phase.shrink])
        @given(sub.strategy(self.tier))
        def test(case):
            if state['abort'] is not None:
                return
            if state['first_fail_t'] is not None and time.time() - state['first_fail_t'] > sub.shrink_budget_s:
                return  # shrink budget used up: stop shrinking (handled below)
            try:
                vs = ctx.execute_case(sub, case, name)
            except HarnessError as e:
                state['abort'] = f'{e}\n{traceback.format_exc()}'
                return
            except Exception as e:  # harness bug inside run_case
                state['abort'] = f'{type(e).__name__}: {e}\n{traceback.format_exc()}'
                return
            bad = ctx._unknown(vs)
            if bad:
                if state['first_fail_t'] is None:
                    state['first_fail_t'] = time.time()
                    ctx._save_replay(name + '-first', case, bad[0])
                state['best'], state['best_v'] = case, bad[0]
                raise _Fail(bad[0].signature)

        try:
            test()
        except BaseException as e:  # noqa: hypothesis re-raises _Fail / Flaky / etc.
            if state['abort'] is None and state['best'] is None:
                if isinstance(e, (KeyboardInterrupt, SystemExit)):
                    raise
                raise HarnessError(f'{name}: {type(e).__name__}: {e}\n{traceback.format_exc()}')
        if state['abort'] is not None:
            raise HarnessError(f'{name}: exception escaped run_case: {state["abort"]}')
        if state['best'] is not None:
            path = self._save_replay(name, state['best'], state['best_v'])
            raise ViolationFound(state['best_v'].signature, state['best_v'].detail, name, path)

    # -- output ------------------------------------------------------------------------
    def partial(self):
        out = {'shard': self.shard, 'violation': self.violation, 'harness_error': self.harness_error,
               'wall': self.wall, 'sub': {}, 'collected': self.collected}
        for name, s in self.sub.items():
            d = dict(s)
            d['keys'] = sorted(s['keys'])
            if not d['samples'] and 'first' in d:
                d['samples'] = [d['first']]
            d.pop('first', None)
            out['sub'][name] = d
        return out


def _clip(case, limit=1500):
    txt = json.dumps(case, default=str)
    if len(txt) <= limit:
        return case
    return {'clipped_json': txt[:limit] + '...', 'full_len': len(txt)}


def known_lines(pid, parts):
    agg = {}
    for p in parts:
        for name, s in p['sub'].items():
            for sig, kh in s['known_hits'].items():
                a = agg.setdefault(sig, {'count': 0, 'what': kh['what'], 'example': kh['example']})
                a['count'] += kh['count']
    return [f'KNOWN-FINDING: property={pid} {sig} :: {a["what"]} (hit {a["count"]}x, e.g. {a["example"][:160]})'
            for sig, a in sorted(agg.items())]


def merge_evidence(mod, tier, seed, parts, wall, violation):
    pid = mod.PROPERTY_ID
    subs = {}
    keys_all = set()
    evaluations = 0
    samples = []
    known = {}
    for p in parts:
        for name, s in p['sub'].items():
            a = subs.setdefault(name, {'evaluations': 0, 'discarded': 0, 'keys': set(), 'classes': {},
                                       'exhaustive': True, 'samples': [], 'wall_s': 0.0})
            a['evaluations'] += s['evaluations']
            a['discarded'] += s['discarded']
            a['keys'].update(s['keys'])
            a['exhaustive'] = a['exhaustive'] and s['exhaustive']
            a['wall_s'] = max(a['wall_s'], round(s['wall'], 2))
            for c, n in s['classes'].items():
                a['classes'][c] = a['classes'].get(c, 0) + n
            if len(a['samples']) < 2:
                a['samples'].extend(s['samples'][:2 - len(a['samples'])])
            for sig, kh in s['known_hits'].items():
                k = known.setdefault(sig, {'count': 0, 'what': kh['what']})
                k['count'] += kh['count']
    for name, a in subs.items():
        evaluations += a['evaluations']
        keys_all.update(f'{name}:{k}' for k in a['keys'])
        for smp in a['samples']:
            samples.append({'subcheck': name, 'case': smp})
    sub_out = {name: {'evaluations': a['evaluations'], 'discarded': a['discarded'],
                      'distinct_nontrivial': len(a['keys']), 'exhaustive': a['exhaustive'],
                      'classes': dict(sorted(a['classes'].items())), 'wall_s': a['wall_s'],
                      'note': getattr(mod.SUBCHECKS.get(name), 'note', '')}
               for name, a in subs.items()}
    exhaustive_subs = [n for n, a in sub_out.items() if a['exhaustive']]
    ev = {
        'property_id': pid, 'tier': tier, 'seed': seed,
        'level': getattr(mod, 'LEVEL', 'exploration'),
        'coverage': {
            'evaluations': evaluations,
            'distinct_nontrivial': len(keys_all),
            'rule': mod.RULE,
            'samples': samples[:12] or [{'note': 'no case executed'}],
            'exhaustive': False,
            'exhaustive_subchecks': exhaustive_subs,
            'subchecks': sub_out,
            'known_hits': known,
            'shards': len(parts),
        },
        'assumptions': list(getattr(mod, 'ASSUMPTIONS', [])),
        'wall_s': round(wall, 2),
        'violations': 1 if violation else 0,
    }
    if violation:
        ev['coverage']['violation'] = violation
    return ev


def run_fuzz(ctx, name, target, runs, seed_inputs):
    """Run one atheris campaign (pbt/fuzz_targets.py) in a subprocess and fold its statistics into ctx.
    The saved input is the reproducible unit; -seed only pins libFuzzer approximately."""
    import shutil
    import subprocess
    import sys
    import tempfile
    s = ctx._stats(name)
    runs = runs.get(ctx.tier, 0) if isinstance(runs, dict) else runs
    if not runs:
        return
    per = max(200, runs // ctx.nshards)
    d = tempfile.mkdtemp(prefix=f'fuzz-{target}-')
    try:
        corpus = os.path.join(d, 'corpus')
        os.makedirs(corpus)
        if ctx.shard % 2 == 0:            # odd shards start from an empty corpus
            for i, b in enumerate(seed_inputs):
                with open(os.path.join(corpus, f'seed{i}'), 'wb') as f:
                    f.write(b)
        stats_file = os.path.join(d, 'stats.json')
        cmd = [sys.executable, '-W', 'ignore', '-m', 'pbt.fuzz_targets', target, '--runs', str(per), '--seed',
               str(ctx.seed * 1000 + ctx.shard + 1), '--corpus', corpus, '--stats', stats_file,
               '--replay-dir', os.path.join(ROOT, 'replays', ctx.property_id)]
        p = subprocess.run(cmd, capture_output=True, text=True, cwd=ROOT)
        if not os.path.exists(stats_file):
            if 'No module named' in (p.stderr or '') and 'atheris' in p.stderr:
                s['classes']['atheris-unavailable'] = s['classes'].get('atheris-unavailable', 0) + 1
                return
            raise HarnessError(f'{name}: fuzz subprocess failed (exit {p.returncode}): {(p.stderr or p.stdout)[-1500:]}')
        with open(stats_file) as f:
            st_ = json.load(f)
        if st_.get('harness_error'):
            raise HarnessError(f'{name}: {st_["harness_error"]}')
        s['evaluations'] += st_['execs']
        s['keys'].update(st_['keys'])
        s['classes']['fuzz-execs'] = s['classes'].get('fuzz-execs', 0) + st_['execs']
        for smp in st_['samples']:
            if len(s['samples']) < 3:
                s['samples'].append(smp)
        for sig, n in st_['known'].items():
            e = next((x for x in ctx.findings.entries if x['signature'] == sig), {})
            kh = s['known_hits'].setdefault(sig, {'count': 0, 'what': e.get('what', ''), 'example': 'found by the fuzz campaign'})
            kh['count'] += n
        if st_.get('violation'):
            v = st_['violation']
            raise ViolationFound(v['signature'], v['detail'], name, os.path.relpath(v['replay'], ROOT))
    finally:
        shutil.rmtree(d, ignore_errors=True)


# -- small strategy helpers shared by checks ------------------------------------------------
def hexs(strategy):
    return strategy.map(lambda b: bytes(b).hex())


def unhex(s):
    return bytes.fromhex(s)
