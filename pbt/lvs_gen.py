"""Hypothesis generators for well-formed Light VerSec schemas (JSON AST, see refs/lvs_ref.py) and for name sets."""
from hypothesis import strategies as st

from ndn.encoding import Component

from .refs import lvs_ref as L

WORDS = ['a', 'b', 'c', 'K', '32=t']
NAMED = ['x', 'y', 'z']
TEMPS = ['_', '_t']


def user_fns():
    def first_a(c, args):
        return bytes(Component.get_value(c))[:1] == b'a'

    def isin(c, args):
        # (uses its argument list up: the list is the function's own, a fresh one for every call)
        while args:
            a = args.pop()
            if a is not None and bytes(a) == bytes(c):
                return True
        return False
    def first_is(c, args):
        # order-sensitive: the FIRST argument (as written in the schema) equals the component
        return bool(args) and args[0] is not None and bytes(args[0]) == bytes(c)
    return {
        '$first_is': first_is,
        '$eq': lambda c, args: all(x == c for x in args),
        '$eq_type': lambda c, args: all(Component.get_type(x) == Component.get_type(c) for x in args),
        '$first_a': first_a,
        '$in': isin,
    }


def _expanded_pats(rules, name_items):
    """(named patterns, own temps) visible in the expanded name of a rule with the given items."""
    named, temps = [], []
    for it in name_items:
        if 'pat' in it:
            (temps if it['pat'].startswith('_') else named).append(it['pat'])
        elif 'ref' in it:
            for r in rules:
                if r['id'] == it['ref']:
                    n2, _ = _expanded_pats(rules, r['name'])
                    named += n2
    return list(dict.fromkeys(named)), list(dict.fromkeys(temps))


MANY_NAMED = ['x', 'y', 'z'] + [f'p{i}' for i in range(11)]


@st.composite
def schema(draw, signing_bias=False, max_rules=7, mode='base'):
    """mode 'base'   : pattern names x/y/z, independent rules
       mode 'many'   : a pool of 14 pattern names, so that pattern numbers reach two digits
       mode 'family' : redefinitions with an identical name pattern, sibling rules sharing a prefix, rules referenced twice
       mode 'twins'  : 'family' with the literals b, c replaced by 32=a, 33=a: components equal in value, different in type
    Each mode is driven by its own sub-check so that widening one does not thin out the others."""
    twins = mode == 'twins'
    if twins:
        mode = 'family'
    named_pool = MANY_NAMED if mode == 'many' else NAMED
    n = draw(st.integers(2, max_rules)) if named_pool is NAMED else max_rules
    ids = ['#KEY', '#r0', '#r1', '#r2', '#r3', '#r4', '#r5'][:max(2, min(7, draw(st.integers(2, 6))))]
    rules = []
    # definition order by id index: a rule may reference only ids with a SMALLER index (acyclic),
    # and list as signers only ids with a GREATER index (acyclic signing graph on ids)
    plan = sorted(draw(st.lists(st.integers(0, len(ids) - 1), min_size=n, max_size=n)))
    if signing_bias and len(set(plan)) < 2:
        plan = sorted(set(plan) | {0, len(ids) - 1})
    defined = []
    for k, idx in enumerate(plan):
        rid = ids[idx]
        temp_rule = (not signing_bias) and draw(st.integers(0, 9)) == 0
        items = []
        for _ in range(draw(st.integers(1, 4)) if named_pool is NAMED else draw(st.integers(3, 4))):
            kind = draw(st.sampled_from(['lit', 'lit', 'pat', 'pat', 'tmp', 'ref', 'ref'] if named_pool is NAMED
                                        else ['lit', 'pat', 'pat', 'pat', 'pat', 'ref']))
            refable = [d for d in dict.fromkeys(defined) if ids.index(d) < idx] if not temp_rule or True else []
            if kind == 'ref' and refable:
                items.append({'ref': draw(st.sampled_from(refable))})
                if draw(st.integers(0, 3 if mode != 'family' else 1)) == 0:
                    items.append(dict(items[-1]))      # the same rule referenced twice in one name
            elif kind == 'pat':
                if named_pool is MANY_NAMED:
                    # walk through the pool so that most names occur somewhere, but also mix early and late names in one rule
                    if draw(st.booleans()):
                        items.append({'pat': named_pool[(len(rules) * 3 + len(items) + draw(st.integers(0, 2))) % len(named_pool)]})
                    else:
                        items.append({'pat': draw(st.sampled_from(named_pool))})
                else:
                    items.append({'pat': draw(st.sampled_from(named_pool))})
            elif kind == 'tmp':
                items.append({'pat': draw(st.sampled_from(TEMPS))})
            else:
                items.append({'lit': draw(st.sampled_from(WORDS))})
        clone = None
        same_id = [r_ for r_ in rules if r_['id'] == rid]
        if mode != 'family':
            pass
        elif same_id and not temp_rule and draw(st.integers(0, 2)) == 0:
            # a redefinition with the IDENTICAL name pattern and constraints (only the signers will differ)
            clone = draw(st.sampled_from(same_id))
            items = [dict(i) for i in clone['name']]
        elif rules and draw(st.integers(0, 3)) == 0:
            prev = draw(st.sampled_from(rules))
            if all('ref' not in i or ids.index(i['ref']) < idx for i in prev['name']):
                # a sibling rule: shares a prefix of an earlier rule's name pattern, then goes its own way
                k = draw(st.integers(1, len(prev['name'])))
                items = [dict(i) for i in prev['name'][:k]] + items[:max(0, 4 - k)][:draw(st.integers(0, 2))]
                items = items or [dict(prev['name'][0])]
        named, temps = _expanded_pats(rules, items)
        cons = []
        if clone is not None:
            import copy as _copy
            rules.append({'id': rid, 'name': items, 'cons': _copy.deepcopy(clone['cons']), 'sign': [], '_idx': idx})
            defined.append(rid)
            continue
        if named or temps:
            for _ in range(draw(st.integers(0, 2)) if mode != 'many' else draw(st.integers(1, 2))):
                cs = []
                for _ in range(draw(st.integers(1, 2))):
                    p = draw(st.sampled_from(named + temps))
                    opts = []
                    for _ in range(draw(st.integers(1, 2))):
                        ok = draw(st.sampled_from(['lit', 'lit', 'pat', 'fn']))
                        if ok == 'pat' and named:
                            opts.append({'pat': draw(st.sampled_from(named))})
                        elif ok == 'fn':
                            fn = draw(st.sampled_from(['$eq', '$eq_type', '$first_a', '$in']))
                            if fn == '$eq_type' or not named:
                                args = [{'lit': draw(st.sampled_from(WORDS))}]
                            else:
                                args = draw(st.lists(st.one_of(st.sampled_from(WORDS).map(lambda w: {'lit': w}),
                                                               st.sampled_from(named).map(lambda p_: {'pat': p_})),
                                                     min_size=0 if fn == '$first_a' else 1, max_size=2))
                            opts.append({'fn': fn, 'args': args})
                        else:
                            opts.append({'lit': draw(st.sampled_from(WORDS))})
                    cs.append({'pat': p, 'opts': opts})
                cons.append(cs)
        rules.append({'id': '#_t' if temp_rule else rid, 'name': items, 'cons': cons, 'sign': [], '_idx': idx})
        if not temp_rule:
            defined.append(rid)
    # signing lists: only non-temporary ids with a greater index
    for r in rules:
        cands = [d for d in dict.fromkeys(defined) if ids.index(d) > r['_idx']]
        if cands and draw(st.integers(0, 2 if not signing_bias else 9)) > 0:
            r['sign'] = draw(st.lists(st.sampled_from(cands), min_size=1, max_size=2, unique=True))
    if mode == 'many':
        # Pattern numbers are handed out in processing order (rules without references: reverse alphabetical by id, items
        # left to right).  Make sure that some rule holds two patterns whose decimal numbers are prefixes of each other
        # (k and 1k), the later one constrained - a shape that needs >= 10 patterns and that free generation rarely builds.
        order = sorted(range(len(rules)), key=lambda i: rules[i]['id'], reverse=True)
        number = {}
        for i in order:
            for it in rules[i]['name']:
                if 'pat' in it and not it['pat'].startswith('_') and it['pat'] not in number:
                    number[it['pat']] = len(number) + 1
        by_num = {v: k for k, v in number.items()}
        highs = [n for n in by_num if n >= 10]
        if highs:
            hi = draw(st.sampled_from(highs))
            lo = by_num[int(str(hi)[0])]
            cands = [r_ for r_ in rules if any(it.get('pat') == by_num[hi] for it in r_['name']) and not r_['id'].startswith('#_')]
            signers = {k_ for r_ in rules for k_ in r_['sign']}
            involved = [r_ for r_ in cands if r_['sign'] or r_['id'] in signers]
            if involved and signing_bias:
                cands = involved
            if cands:
                tgt = draw(st.sampled_from(cands))
                if not any(it.get('pat') == lo for it in tgt['name']):
                    tgt['name'].insert(draw(st.integers(0, len(tgt['name']))), {'pat': lo})
                tgt['cons'] = (tgt['cons'] or [[]])
                tgt['cons'][0] = [t for t in tgt['cons'][0] if t['pat'] != by_num[hi]] + \
                    [{'pat': by_num[hi], 'opts': [{'lit': draw(st.sampled_from(WORDS))}]}]
    for r in rules:
        del r['_idx']
    if twins:
        _relabel(rules, {'b': '32=a', 'c': '33=a'})
    return {'rules': rules}


def _relabel(node, mapping):
    if isinstance(node, dict):
        if 'lit' in node and node['lit'] in mapping:
            node['lit'] = mapping[node['lit']]
        for v in node.values():
            _relabel(v, mapping)
    elif isinstance(node, list):
        for v in node:
            _relabel(v, mapping)


def name_alphabet(sch):
    lits = L.literals(sch)
    words = list(dict.fromkeys(lits + ['q', 'az']))[:7]
    return words


def all_names(words, max_len=4):
    comps = [L.comp_of(w) for w in words]
    out = [[]]
    layer = [[]]
    for _ in range(max_len):
        layer = [n + [c] for n in layer for c in comps]
        out += layer
    return out


@st.composite
def templated_schema(draw):
    """Small hand-shaped families with drawn variations (shapes the free generator reaches too rarely):
    'shift'  - two packet definitions binding the SAME named pattern at DIFFERENT positions, with different signers;
    'twice'  - a rule with several definitions of different shape (literal / constrained temporary or named pattern) that a
               signer rule refers to two or three times in one name."""
    lits = ['a', 'b', 'c']
    fam = draw(st.sampled_from(['shift', 'twice', 'alias', 'edge']))
    if fam == 'edge':
        # 'edge' - (i) a zero-length literal in rule names; (ii) literals of component types >= 253 compared with $eq_type;
        #          (iii) an order-sensitive user function called with (literal, pattern); (iv) two rules on one prefix constraining
        #          the same pattern with the same options, once as alternatives (OR) and once as two terms (AND)
        which = draw(st.integers(0, 3))
        sign = draw(st.booleans())
        if which == 0:
            pat = draw(st.sampled_from(['x', '_']))
            rules = [{'id': '#r0', 'name': [{'lit': 'K'}, {'lit': ''}, {'pat': pat}], 'cons': [], 'sign': ['#r2'] if sign else []},
                     {'id': '#r1', 'name': [{'lit': ''}, {'lit': 'a'}], 'cons': [], 'sign': []},
                     {'id': '#r2', 'name': [{'lit': 'a'}, {'lit': ''}], 'cons': [], 'sign': []}]
        elif which == 1:
            t1, t2 = draw(st.sampled_from([(65000, 65001), (253, 254), (300, 65000), (32, 253)]))
            rules = [{'id': '#r0', 'name': [{'pat': 'x'}, {'pat': 'y'}],
                      'cons': [[{'pat': 'x', 'opts': [{'lit': f'{t1}=p'}, {'lit': f'{t2}=q'}]},
                                {'pat': 'y', 'opts': [{'fn': '$eq_type', 'args': [{'pat': 'x'}]}]}]], 'sign': ['#r2'] if sign else []},
                     {'id': '#r2', 'name': [{'lit': f'{t2}=q'}, {'pat': 'x'}],
                      'cons': [[{'pat': 'x', 'opts': [{'fn': '$eq_type', 'args': [{'lit': f'{t1}=p'}]}]}]], 'sign': []}]
        elif which == 2:
            lit = draw(st.sampled_from(lits))
            args = [{'lit': lit}, {'pat': 'x'}] if draw(st.booleans()) else [{'pat': 'x'}, {'lit': lit}]
            rules = [{'id': '#r0', 'name': [{'lit': 'K'}, {'pat': 'x'}, {'pat': 'y'}],
                      'cons': [[{'pat': 'y', 'opts': [{'fn': '$first_is', 'args': args}]}]], 'sign': ['#r2'] if sign else []},
                     {'id': '#r2', 'name': [{'lit': 'a'}, {'pat': 'x'}, {'pat': 'z'}],
                      'cons': [[{'pat': 'z', 'opts': [{'fn': '$first_is', 'args': args[::-1]}]}]], 'sign': []}]
        else:
            o1, o2 = draw(st.lists(st.sampled_from(lits), min_size=2, max_size=2, unique=True))
            either = {'id': '#r0', 'name': [{'lit': 'K'}, {'pat': 'x'}], 'cons': [[{'pat': 'x', 'opts': [{'lit': o1}, {'lit': o2}]}]],
                      'sign': ['#r2']}
            both = {'id': '#r1', 'name': [{'lit': 'K'}, {'pat': 'x'}],
                    'cons': [[{'pat': 'x', 'opts': [{'lit': o1}]}, {'pat': 'x', 'opts': [{'lit': o2}]}]], 'sign': ['#r3']}
            pair = [either, both] if draw(st.booleans()) else [both, either]
            if pair[0] is both:
                either['id'], both['id'] = '#r1', '#r0'
            rules = pair + [{'id': '#r2', 'name': [{'lit': 'a'}, {'pat': '_'}], 'cons': [], 'sign': []},
                            {'id': '#r3', 'name': [{'lit': 'b'}, {'pat': '_'}], 'cons': [], 'sign': []}]
        return {'rules': rules}
    if fam == 'alias':
        # 'alias' - a rule with several chains (constraint alternatives or a reference to a multi-definition rule) and a signer;
        #           another rule whose name pattern + constraints equal ONE of those chains, with another signer
        pat = draw(st.sampled_from(['x', '_t']))
        alts = draw(st.lists(st.sampled_from(lits), min_size=2, max_size=3, unique=True))
        dup = draw(st.sampled_from(alts))
        if draw(st.booleans()):
            first = {'id': '#r0', 'name': [{'lit': 'K'}, {'pat': pat}], 'cons': [[{'pat': pat, 'opts': [{'lit': a_}]}] for a_ in alts],
                     'sign': ['#r2']}
            second = {'id': '#r1', 'name': [{'lit': 'K'}, {'pat': pat}], 'cons': [[{'pat': pat, 'opts': [{'lit': dup}]}]], 'sign': ['#r3']}
            pre = []
        else:
            pre = [{'id': '#KEY', 'name': [{'lit': a_}], 'cons': [], 'sign': []} for a_ in alts]
            first = {'id': '#r0', 'name': [{'lit': 'K'}, {'ref': '#KEY'}], 'cons': [], 'sign': ['#r2']}
            second = {'id': '#r1', 'name': [{'lit': 'K'}, {'lit': dup}], 'cons': [], 'sign': ['#r3']}
        keys = [{'id': '#r2', 'name': [{'lit': 'a'}, {'pat': '_'}], 'cons': [], 'sign': []},
                {'id': '#r3', 'name': [{'lit': 'b'}, {'pat': '_'}], 'cons': [], 'sign': []}]
        if pre and draw(st.booleans()):
            # the second signer is itself signed by ANOTHER end node of the first rule (still acyclic)
            other = next(a_ for a_ in alts if a_ != dup)
            keys[1]['sign'] = ['#r4']
            keys.append({'id': '#r4', 'name': [{'lit': 'K'}, {'lit': other}], 'cons': [], 'sign': []})
        mid = [first, second] if draw(st.booleans()) else [second, first]
        if mid[0] is second:
            first['id'], second['id'] = '#r1', '#r0'
        return {'rules': pre + mid + keys}
    if fam == 'shift':
        w = draw(st.integers(2, 3))
        p1 = draw(st.integers(0, w - 1))
        p2 = draw(st.integers(0, w - 1).filter(lambda v: v != p1))
        pat = draw(st.sampled_from(NAMED))

        def items(pos, other):
            return [{'lit': 'K'}] + [{'pat': pat} if j == pos else {'pat': other} for j in range(w)]
        other1, other2 = draw(st.sampled_from(['_', '_t'])), draw(st.sampled_from(['_', '_t', 'y' if pat != 'y' else 'z']))
        key_shape = draw(st.sampled_from(['pat', 'pat-lit', 'lit-pat']))

        def key(lit):
            return {'pat': [{'lit': lit}, {'pat': pat}], 'pat-lit': [{'lit': lit}, {'pat': pat}, {'lit': 'c'}],
                    'lit-pat': [{'lit': lit}, {'lit': 'c'}, {'pat': pat}]}[key_shape]
        same = draw(st.booleans())
        rules = [{'id': '#r0', 'name': items(p1, other1), 'cons': [], 'sign': ['#r2']},
                 {'id': '#r0' if same else '#r1', 'name': items(p2, other2), 'cons': [], 'sign': ['#r3']},
                 {'id': '#r2', 'name': key('a'), 'cons': [], 'sign': []},
                 {'id': '#r3', 'name': key('b'), 'cons': [], 'sign': []}]
        return {'rules': rules}
    tp = draw(st.sampled_from(['_t', '_', 'x']))
    opts = [{'lit': w_} for w_ in draw(st.lists(st.sampled_from(lits), min_size=1, max_size=2, unique=True))]
    d_lit = {'id': '#r0', 'name': [{'lit': draw(st.sampled_from(lits))}], 'cons': [], 'sign': []}
    d_pat = {'id': '#r0', 'name': [{'pat': tp}], 'cons': [[{'pat': tp, 'opts': opts}]], 'sign': []}
    defs = [d_lit, d_pat] if draw(st.booleans()) else [d_pat, d_lit]
    if draw(st.integers(0, 3)) == 0:
        defs.append({'id': '#r0', 'name': [{'lit': 'K'}, {'pat': '_'}], 'cons': [], 'sign': []})
    nref = draw(st.integers(2, 3))
    key_rule = {'id': '#r2', 'name': [{'lit': 'K'}] + [{'ref': '#r0'}] * nref, 'cons': [], 'sign': []}
    pkt = {'id': '#r1', 'name': [{'lit': 'q'}, {'pat': '_'}], 'cons': [], 'sign': ['#r2']}
    return {'rules': defs + [pkt, key_rule]}
