"""C14 - the schema validator accepts exactly packets with a valid chain to the anchor."""
import asyncio
import datetime

from hypothesis import strategies as st

import ndn.app_support.security_v2 as secv2
from ndn.app_support.light_versec import Checker, compile_lvs, lvs_validator
from ndn.encoding import Component, MetaInfo, make_data, parse_data

from .. import keys as K
from .. import pkt as P
from ..core import Result, SubCheck
from ..refs import lvs_ref as L
from ..refs import tlv as T
from ..sim import net
from ..sim.appsim import AppSim, exc_site

PROPERTY_ID = 'C14'
RULE = ('Generated certificate hierarchies built with the library\'s issuing API and pooled keys (anchor + 1..4 levels; EC P-256/384, '
        'RSA-1024/2048 mixed; HMAC / Ed25519 links for the soundness direction), a schema from a parameterised family (per-level rules, '
        'shared or distinct identity patterns, #KEY: "KEY"/_/_/_, optional identity constraints), a simulated certificate server '
        'behind the legacy NDNApp on the virtual loop. ONE deviation injected at each link in turn: name breaking the schema, forged '
        'signature, substituted key, key locator pointing elsewhere, missing certificate (timeout), Nack, unsigned / digest-only '
        'packet, certificate loop; bad anchors (not self-signed, not matching the roots of trust); the anchor handed over as bytes or in a '
        'mutable buffer that is overwritten with another anchor after construction. Histories: 1..3 validator instances '
        '(same or different anchor, default storage argument) validating 1..6 packets in a drawn order. Oracle: reference chain '
        'evaluator (strict signed portion, pycryptodome verification, reference signing relation, store lookup), verdict equal for '
        'every validation independently of order and instances; constructor raises for a bad anchor; certificate Interests per '
        'validation <= 2*depth+4; every validation ends (20 s of virtual time, and never 2000 loop turns without the clock moving). Non-trivial = depth>=2 with the deviation not at the first link, or >=2 instances; distinct key = '
        '(depth, deviation, position, key types, instances).')
ASSUMPTIONS = [
    'retrievability of every certificate is constant within one history',
    'HMAC and Ed25519 links are not dispatched by the cascade checker: only "never accepted when forged" is demanded for them',
    'validity periods are not part of the property',
    'a validator call that raises (e.g. key of another type than the SignatureType announces) counts as "not accepted"',
]

KEYPOOL = ['p256-0', 'p256-1', 'p256-2', 'p384-0', 'rsa1024-0', 'rsa1024-1', 'rsa2048-0']
IDS = ['alice', 'bob']


def comp(s):
    return net.comp(s)


# ---- schema family ---------------------------------------------------------------------------------------------------
def schema_ast(depth, shared, constrained, two_roots=False, loose=False, overlap=False):
    rules = [{'id': '#KEY', 'name': [{'lit': 'KEY'}, {'pat': '_'}, {'pat': '_'}, {'pat': '_'}], 'cons': [], 'sign': []},
             {'id': '#anchor', 'name': [{'lit': 'site'}, {'ref': '#KEY'}], 'cons': [], 'sign': []}]
    prev = '#anchor'
    for i in range(1, depth + 1):
        pat = 'u' if shared else f'u{i}'
        cons = [[{'pat': pat, 'opts': [{'lit': w} for w in IDS]}]] if constrained and i == 1 else []
        rules.append({'id': f'#l{i}', 'name': [{'lit': 'site'}, {'lit': f'l{i}'}, {'pat': pat}, {'ref': '#KEY'}], 'cons': cons,
                      'sign': [prev] + (['#anykey'] if overlap else [])})
        prev = f'#l{i}'
    pat = 'u' if shared else 'ud'
    if overlap:
        # rules that OVERLAP: every key name also matches a general key rule, which may sign the level keys - a certificate can then
        # pass the signing check as its own signer, so nothing but the validator itself stops a retrievable loop
        rules.append({'id': '#anykey', 'name': [{'lit': 'site'}, {'pat': '_'}, {'pat': '_'}, {'ref': '#KEY'}], 'cons': [],
                      'sign': ['#anchor']})
    signers = [prev]
    if loose and depth >= 1:
        # a schema that (also) lets bare KEY names - which no certificate carries - sign data: what such a key locator names cannot
        # be retrieved, so no chain goes through it
        rules.append({'id': '#barekey', 'name': [{'lit': 'site'}, {'lit': f'l{depth}'}, {'pat': pat}, {'lit': 'KEY'}, {'pat': '_'}],
                      'cons': [], 'sign': ['#anchor']})       # (signed by something, so that it is no root of trust)
        signers.append('#barekey')
    rules.append({'id': '#data', 'name': [{'lit': 'site'}, {'lit': 'data'}, {'pat': pat}, {'pat': '_'}], 'cons': [], 'sign': signers})
    if two_roots:
        # a second, independent root of trust that the (single) trust anchor does not match
        rules.append({'id': '#anchor2', 'name': [{'lit': 'othersite'}, {'ref': '#KEY'}], 'cons': [], 'sign': []})
        rules.append({'id': '#other', 'name': [{'lit': 'othersite'}, {'lit': 'data'}, {'pat': '_'}], 'cons': [], 'sign': ['#anchor2']})
    return {'rules': rules}


# ---- hierarchy construction ------------------------------------------------------------------------------------------------
class Hier:
    """anchor + levels; certs[i] = dict(name, wire, key, kl)"""

    def __init__(self, spec, tag, store):
        self.spec = spec
        self.store = store
        self.certs = []
        keys = spec['keys']
        site = [comp('site')]
        ak = K.KEYS[keys[0]]
        akey_name = site + [comp('KEY'), comp(f'{tag}0')]
        # self-signed anchor: the signer names the certificate itself
        self.anchor_name, self.anchor_wire = self._issue(akey_name, 'self', ak, keys[0], None, akey_name)
        self.certs.append({'name': self.anchor_name, 'wire': self.anchor_wire, 'key': keys[0]})
        parent = self.certs[0]
        ident = spec['ids']
        for i in range(1, spec['depth'] + 1):
            who = ident[(i - 1) % len(ident)] if not spec['shared'] else ident[0]
            lit = f'l{i}'
            if spec['deviation'] == 'bad-name' and i == min(max(1, spec['link'] % (spec['depth'] + 1)), spec['depth']):
                lit = 'lx'      # a level name the schema does not allow
            kname = site + [comp(lit), comp(who), comp('KEY'), comp(f'{tag}{i}')]
            name, wire = self._issue(kname, f'{tag}iss{i - 1}', K.KEYS[keys[i]], keys[i - 1], parent['name'], None)
            c = {'name': name, 'wire': wire, 'key': keys[i]}
            self.certs.append(c)
            store[tuple(name)] = wire
            parent = c

    def _issue(self, key_name, issuer, subject, issuer_key, issuer_cert_name, self_key_name):
        signer = _signer(issuer_key, issuer_cert_name)
        if issuer_cert_name is None:
            # self-signed: key locator = own certificate name; build twice to learn the name
            name, _ = secv2.new_cert(key_name, Component.from_str(issuer), subject['pub'], _signer(issuer_key, key_name),
                                     datetime.datetime(2020, 1, 1), datetime.datetime(2040, 1, 1))
            signer = _signer(issuer_key, [bytes(c) for c in name])
        name, wire = secv2.new_cert(key_name, Component.from_str(issuer), subject['pub'], signer,
                                    datetime.datetime(2020, 1, 1), datetime.datetime(2040, 1, 1))
        return [bytes(c) for c in name], bytes(wire)

    def data_packet(self, who, idx, signer_level=None, kl=None, key=None, sign=True):
        lvl = self.spec['depth'] if signer_level is None else signer_level
        c = self.certs[lvl]
        name = [comp('site'), comp('data'), comp(who), comp(f'd{idx}')]
        if not sign:
            return name, bytes(make_data(name, MetaInfo(), b'x', None))
        signer = _signer(key or c['key'], kl if kl is not None else c['name'])
        return name, bytes(make_data(name, MetaInfo(), b'x', signer))


def _signer(key_name, kl_name):
    k = K.KEYS[key_name]
    from ndn.security.signer import Ed25519Signer, HmacSha256Signer, Sha256WithRsaSigner
    if k['kind'] == 'ec':
        s = K.PinnedEcdsa(kl_name, k['priv'])
        s.drbg_seed = len(kl_name or [])
        return s
    if k['kind'] == 'rsa':
        return Sha256WithRsaSigner(kl_name, k['priv'])
    if k['kind'] == 'ed25519':
        return Ed25519Signer(kl_name, k['priv'])
    raise ValueError(key_name)


# ---- reference chain evaluator ------------------------------------------------------------------------------------------
def ref_validate(wire, sch, anchor_name, anchor_key_name, store, retrievable):
    """-> (verdict, n_fetch_lower_bound).  Conjunction over the chain packet - cert - ... - anchor."""
    seen = set()
    cur = wire
    for _ in range(12):
        d = P.strict_data(cur)
        si = d['sig_info']
        if not si or not si['key_locator'] or not si['key_locator']['name']:
            return False
        kl = si['key_locator']['name']
        if not L.can_sign(sch, d['name'], kl, {}):
            return False
        if kl == anchor_name:
            key = K.KEYS[anchor_key_name]['pub']
            nxt = None
        else:
            cw = store.get(tuple(kl))
            if cw is None or not retrievable(tuple(kl)):
                return False
            key = P.strict_data(cw)['content']
            nxt = cw
        if not _verify(si['signature_type'], key, d['signed'], d['sig_value']):
            return False
        if nxt is None:
            return True
        if tuple(kl) in seen:
            return False
        seen.add(tuple(kl))
        cur = nxt
    return False


def _verify(sig_type, pub, signed, sig):
    from Cryptodome.Hash import SHA256
    from Cryptodome.PublicKey import ECC, RSA
    from Cryptodome.Signature import DSS, pkcs1_15
    try:
        if sig_type == 1:
            pkcs1_15.new(RSA.import_key(pub)).verify(SHA256.new(signed), sig)
            return True
        if sig_type == 3:
            DSS.new(ECC.import_key(pub), 'fips-186-3', 'der').verify(SHA256.new(signed), sig)
            return True
    except Exception:
        return False
    return False


# ---- deviations --------------------------------------------------------------------------------------------------------------
DEVIATIONS = ['none', 'bad-name', 'forged-sig', 'substituted-key', 'kl-elsewhere', 'missing-cert', 'nack-cert', 'unsigned',
              'digest-only', 'loop', 'wrong-signer-level', 'wrong-id', 'hmac-with-public-key', 'kl-wrong-digest', 'cert-as-packet', 'kl-truncated', 'self-loop', 'kl-alias']


def build_packets(h, spec, store, policy):
    """-> list of (label, name, wire) to validate: one good packet and the deviating one(s)."""
    out = []
    dev, link = spec['deviation'], spec['link'] % (spec['depth'] + 1)
    who = spec['ids'][0] if spec['shared'] else spec['ids'][spec['depth'] % len(spec['ids'])] if False else spec['ids'][0]
    name, wire = h.data_packet(who, 0)
    out.append(('good', name, wire))
    d = spec['depth']
    if dev == 'none':
        pass
    elif dev == 'unsigned':
        out.append((dev, *h.data_packet(who, 1, sign=False)))
    elif dev == 'digest-only':
        nm = [comp('site'), comp('data'), comp(who), comp('d1')]
        out.append((dev, nm, net.data_wire(nm, b'x')))
    elif dev == 'hmac-with-public-key':
        # an attacker without any private key: HMAC keyed with the (public!) key bits of the certificate it names
        from ndn.security.signer import HmacSha256Signer
        c = h.certs[d]
        nm_ = [comp('site'), comp('data'), comp(who), comp('d1')]
        out.append((dev, nm_, bytes(make_data(nm_, MetaInfo(), b'x', HmacSha256Signer(c['name'], K.KEYS[c['key']]['pub'])))))
    elif dev == 'kl-wrong-digest':
        # the key locator names the right certificate plus an implicit digest that is NOT the digest of that certificate: no
        # such packet can be retrieved, so the chain is not valid
        c = h.certs[d]
        out.append((dev, *h.data_packet(who, 1, kl=c['name'] + [T.enc_tlv(1, b'\x5a' * 32)])))
    elif dev == 'self-loop':
        # a retrievable certificate that names ITSELF as its key (self-signed, but not the anchor), under a schema whose overlapping
        # rules let it pass the signing check: no chain through it reaches the anchor
        if d >= 1:
            c = h.certs[d]
            x_name = c['name'][:-1] + [comp('selfloop')]
            store[tuple(x_name)] = _raw_cert(x_name, K.KEYS[c['key']]['pub'], _signer(c['key'], x_name))
            out.append((dev, *h.data_packet(who, 1, signer_level=d, kl=x_name)))
    elif dev == 'kl-alias':
        # the key locator names the certificate with its version number in ANOTHER octet width (one leading zero octet more): a
        # different name that reads the same as a URI; nobody issued a certificate under it, so nothing can be retrieved
        c = h.certs[d]
        el = T.read_tlv(c['name'][-1], 0, len(c['name'][-1]))
        alias = T.enc_tlv(el[0], b'\x00' + bytes(c['name'][-1][el[2]:el[3]]))
        out.append((dev, *h.data_packet(who, 1, kl=c['name'][:-1] + [alias])))
    elif dev == 'kl-truncated':
        # the key locator stops at the key name: a proper prefix of the certificate's name, itself the name of nothing
        c = h.certs[d]
        out.append((dev, *h.data_packet(who, 1, kl=c['name'][:-2])))
    elif dev == 'cert-as-packet':
        # certificates are Data packets and may be validated like any other: the genuine one of each level, and a forged copy
        # (same name, content and signature made with another key) - also AFTER the genuine one went through the validator
        lvl = max(1, min(link if link else 1, d)) if d >= 1 else 0
        if lvl >= 1:
            c = h.certs[lvl]
            out.append(('cert-genuine-as-packet', c['name'], c['wire']))
            other = next((k for k in KEYPOOL if K.KEYS[k]['kind'] == K.KEYS[c['key']]['kind'] and k != c['key']), None)
            if other:
                dd = P.strict_data(c['wire'])
                kl_ = dd['sig_info']['key_locator']['name']
                forged = _raw_cert(c['name'], K.KEYS[other]['pub'], _signer(other, kl_))
                out.append(('cert-forged-as-packet', c['name'], forged))
    elif dev == 'wrong-id' and spec['shared']:
        out.append((dev, *h.data_packet('mallory', 1)))
    elif dev == 'wrong-signer-level' and d >= 2:
        out.append((dev, *h.data_packet(who, 1, signer_level=d - 1)))
    elif dev == 'kl-elsewhere':
        other = h.certs[max(0, d - 1)]['name'] if link % 2 == 0 else h.certs[d]['name'][:-1] + [comp('v9')]
        out.append((dev, *h.data_packet(who, 1, kl=other)))
    elif dev == 'forged-sig' and link == 0:
        nm, w = h.data_packet(who, 1)
        out.append((dev, nm, w[:-1] + bytes([w[-1] ^ 1])))
    elif dev == 'substituted-key' and link == 0:
        other_key = next(k for k in KEYPOOL if K.KEYS[k]['kind'] == K.KEYS[h.certs[d]['key']]['kind'] and k != h.certs[d]['key']) \
            if any(K.KEYS[k]['kind'] == K.KEYS[h.certs[d]['key']]['kind'] and k != h.certs[d]['key'] for k in KEYPOOL) else None
        if other_key:
            out.append((dev, *h.data_packet(who, 1, key=other_key)))
    else:
        # deviation on a certificate link (1..d): replace that certificate in the store by a deviating one
        lvl = max(1, link) if d >= 1 else 0
        lvl = min(lvl, d)
        if lvl >= 1:
            c = h.certs[lvl]
            key = tuple(c['name'])
            if dev == 'missing-cert':
                policy[key] = 'silent'
            elif dev == 'nack-cert':
                policy[key] = 'nack'
            elif dev == 'forged-sig':
                w = store[key]
                store[key] = w[:-1] + bytes([w[-1] ^ 1])
            elif dev == 'substituted-key':
                # same name, same issuer signature over a DIFFERENT public key? that needs the issuer's cooperation;
                # model the attacker without it: the served certificate carries another key and the old signature
                w = store[key]
                dd = P.strict_data(w)
                other = next((K.KEYS[k]['pub'] for k in KEYPOOL if K.KEYS[k]['pub'] != dd['content']
                              and len(K.KEYS[k]['pub']) == len(dd['content'])), None)
                if other:
                    store[key] = w.replace(dd['content'], other)
            elif dev == 'bad-name':
                # re-issue this level under a name the schema does not allow (wrong level literal), and everything below it
                pass
            elif dev == 'loop' and lvl >= 1:
                # certificate lvl names a certificate that names it back
                a_name = c['name'][:-1] + [comp('loopA')]
                b_name = c['name'][:-1] + [comp('loopB')]
                ka = K.KEYS[c['key']]
                wa = _raw_cert(a_name, ka['pub'], _signer(c['key'], b_name))
                wb = _raw_cert(b_name, ka['pub'], _signer(c['key'], a_name))
                store[tuple(a_name)] = wa
                store[tuple(b_name)] = wb
                out.append((dev, *h.data_packet(who, 1, signer_level=lvl, kl=a_name)))
            out.append((dev + '@cert', *h.data_packet(who, 2)))
    return out


def _raw_cert(name, pub, signer):
    return bytes(make_data(name, MetaInfo(content_type=2, freshness_period=3600000), pub, signer))


# ---- the run ------------------------------------------------------------------------------------------------------------------
def run_case(case):
    r = Result()
    secv2.timestamp = lambda: 1_700_000_000_000
    _reset_default_caches()
    sim = AppSim('legacy')
    sim.start()
    try:
        _run(sim, case, r)
    finally:
        try:
            sim.finish()
        except Exception:
            if not getattr(sim, 'dead', False):
                raise
        finally:
            sim.close()
    return r


def _reset_default_caches():
    """Module-level state of the code under test must not leak between cases (replays have to be self-contained):
    clear any key-storage object living in a default argument of the validator constructors."""
    from ndn.security.validator.cascade_validator import CascadeChecker, PublicKeyStorage
    for fn in (lvs_validator, CascadeChecker.__init__):
        for d in (getattr(fn, '__defaults__', None) or ()):
            if isinstance(d, PublicKeyStorage) and hasattr(d, '_cache'):
                d._cache.clear()


def _run(sim, case, r):
    store, policy = {}, {}
    fetch_log = []
    face = sim.face
    loop = sim.vl.loop
    orig_send = face.send

    def send(data):
        orig_send(data)
        w = bytes(data)
        if net.outer_type(w) != 5:
            return
        try:
            nm = tuple(P.strict_interest(w)['name'])
        except T.Malformed:
            return
        fetch_log.append(nm)
        if P.strict_interest(w)['can_be_prefix'] and nm not in store:
            # the network honours CanBePrefix: any Data under the name answers the Interest
            nm = next((k for k in sorted(store) if k[:len(nm)] == nm), nm)
        pol = policy.get(nm, 'serve')
        if pol == 'silent':
            return
        if pol == 'nack':
            resp = net.lp_wrap(w, nack_reason=150)
        else:
            cw = store.get(nm)
            if cw is None:
                return
            resp = cw
        loop.call_soon(lambda: loop.create_task(sim.app.face.callback(net.outer_type(resp), resp)))
    face.send = send

    classes = []
    hiers = []
    for hi, hs in enumerate(case['hiers']):
        hiers.append(Hier(hs, 'ABC'[hi], store))
    validators = []
    for vi, vs in enumerate(case['validators']):
        h = hiers[vs['hier'] % len(hiers)]
        sch = schema_ast(h.spec['depth'], h.spec['shared'], h.spec['constrained'], two_roots=vs.get('bad_anchor') == 'two-roots',
                         loose=h.spec['deviation'] == 'kl-truncated' or bool(h.spec.get('loose')),
                         overlap=h.spec['deviation'] == 'self-loop' or bool(h.spec.get('overlap')))
        text = L.render(sch, 0)
        try:
            checker = Checker(compile_lvs(text), {})
        except Exception as e:
            r.bad(f'C14/schema-refused/{type(e).__name__}', f'{e!r} :: {text}')
            return
        anchor = h.anchor_wire
        bad = vs.get('bad_anchor')
        if bad == 'not-self-signed':
            anchor = anchor[:-1] + bytes([anchor[-1] ^ 1])
        elif bad == 'not-root':
            anchor = h.certs[min(1, len(h.certs) - 1)]['wire'] if len(h.certs) > 1 else anchor
            if len(h.certs) == 1:
                bad = None
        # the anchor may be handed over in the caller's mutable buffer (what self_sign() returns), which the caller re-uses
        # after the validator is built: the verdicts depend on the anchor as it was given at build time
        arep = vs.get('anchor_rep', 0)
        anchor_arg = anchor if arep == 0 else bytearray(anchor) if arep == 1 else memoryview(bytearray(anchor))
        try:
            v = sim.vl.call(lvs_validator, checker, sim.app, anchor_arg)
            if arep:
                scratch = anchor_arg.obj if isinstance(anchor_arg, memoryview) else anchor_arg
                other = hiers[(vs['hier'] + 1) % len(hiers)].anchor_wire
                for i_ in range(len(scratch)):
                    scratch[i_] = other[i_] if i_ < len(other) and len(hiers) > 1 else 0
                classes.append('anchor-buffer-reused')
            if bad:
                r.bad(f'C14/bad-anchor-accepted/{bad}', text)
                return
        except ValueError as e:
            if not bad and K.KEYS[h.spec['keys'][0]]['kind'] in ('ec', 'rsa'):
                r.bad('C14/good-anchor-refused', f'{e!r} :: {text}')
                return
            continue
        except Exception as e:
            r.bad(f'C14/constructor-raised/{type(e).__name__}/{bad}', f'{e!r}')
            return
        validators.append((v, h, sch))
    if not validators:
        r.key = ('bad-anchor-only',)
        return
    # packets
    pool = []
    pristine_store = dict(store)          # every genuine certificate as issued, before any deviation is installed
    for hi, h in enumerate(hiers):
        for label, name, wire in build_packets(h, h.spec, store, policy):
            pool.append((hi, label, name, wire))
    keys = set()
    for pair in case.get('concurrent', []):
        # the same validator instance validates two packets at the same time (both need the same uncached certificates)
        vi = pair[0] % len(validators)
        v, vh, sch = validators[vi]
        items = [pool[pair[1] % len(pool)], pool[pair[2] % len(pool)]]
        wants = [ref_validate(it[3], sch, vh.anchor_name, vh.spec['keys'][0], store,
                              lambda k: policy.get(k, 'serve') == 'serve') for it in items]
        gots = _validate_many(sim, v, [it[3] for it in items], r)
        if gots is None:
            return
        for it, want, got in zip(items, wants, gots):
            hm = any(K.KEYS[k]['kind'] not in ('ec', 'rsa') for k in hiers[it[0]].spec['keys'])
            classes.append(f'concurrent:{it[1]}:{want}')
            if got != want and not (hm and want and not got):
                kind = 'accepts-invalid-chain' if got else 'rejects-valid-chain'
                r.bad(f'C14/concurrent/{kind}/{it[1]}', f'validator {vi}: two validations at once, packet {it[1]}: got {got} want {want}')
                return
        keys.add(('concurrent', items[0][1], items[1][1], vh.spec['depth']))
    for step in case['order']:
        vi = step[0] % len(validators)
        v, vh, sch = validators[vi]
        hi, label, name, wire = pool[step[1] % len(pool)]
        want = ref_validate(wire, sch, vh.anchor_name, vh.spec['keys'][0], store, lambda k: policy.get(k, 'serve') == 'serve')
        n0 = len(fetch_log)
        got = _validate(sim, v, wire, r)
        if got is None:
            return
        nfetch = len(fetch_log) - n0
        depth = vh.spec['depth']
        same = hiers.index(vh) == hi
        classes.append(f'{label}:{"own" if same else "foreign"}:{want}')
        hm = any(K.KEYS[k]['kind'] not in ('ec', 'rsa') for k in hiers[hi].spec['keys'])
        if nfetch > 2 * max(depth, hiers[hi].spec['depth']) + 4:
            r.bad(f'C14/too-many-fetches/{label}', f'{nfetch} certificate Interests for one validation (depth {depth})')
            return
        if got != want and not (hm and want and not got):
            kind = 'accepts-invalid-chain' if got else 'rejects-valid-chain'
            r.bad(f'C14/{kind}/{label}/{"own-hierarchy" if same else "foreign-hierarchy"}',
                  f'validator {vi} (hierarchy {hiers.index(vh)}) packet {label} of hierarchy {hi}: got {got} want {want}; '
                  f'order={case["order"]} depth={depth} keys={hiers[hi].spec["keys"]}')
            return
        nontriv = (depth >= 2 and label not in ('good', 'none')) or len(validators) >= 2
        if nontriv:
            keys.add((depth, label, hiers[hi].spec['link'] % (depth + 1), tuple(K.KEYS[k]['kind'] for k in hiers[hi].spec['keys']),
                      len(validators), same))
    if case.get('heal') and not r.violations:
        # the network recovers: lost / nacked / forged certificates are served genuinely from now on.  The verdict of the SAME
        # validator instances follows (it depends on what is retrievable now, not on which fetches failed earlier)
        healed = policy or any(store.get(k_) != w_ for k_, w_ in pristine_store.items())
        policy.clear()
        store.update(pristine_store)
        for vi, (v, vh, sch) in enumerate(validators):
            for hi, label, name, wire in pool:
                if hiers.index(vh) != hi or not (label == 'good' or label.endswith('@cert')):
                    continue
                want = ref_validate(wire, sch, vh.anchor_name, vh.spec['keys'][0], store, lambda k: True)
                got = _validate(sim, v, wire, r)
                if got is None:
                    return
                hm = any(K.KEYS[k]['kind'] not in ('ec', 'rsa') for k in hiers[hi].spec['keys'])
                if healed:
                    classes.append(f'after-recovery:{label}:{want}')
                    keys.add(('after-recovery', label, vh.spec['depth'], vh.spec['deviation']))
                if got != want and not (hm and want and not got):
                    kind = 'accepts-invalid-chain' if got else 'rejects-valid-chain'
                    r.bad(f'C14/{kind}/after-recovery/{label}', f'validator {vi} after the certificates became retrievable again: '
                          f'got {got} want {want}; deviation {vh.spec["deviation"]} at link {vh.spec["link"]} depth {vh.spec["depth"]}')
                    return
    if sim.receive_errors:
        r.bad(f'C14/receive-raised/{sim.receive_errors[0].split(":")[0]}', sim.receive_errors[0])
    r.key = sorted(map(str, keys)) if keys else None
    r.classes = tuple(classes)


def _wait_done(sim, tasks, r, tag):
    """Advance up to 20 s of virtual time until the tasks are done -> True; a violation is recorded otherwise."""
    from ..core import HarnessError
    try:
        for _ in range(40):
            if all(t.done() for t in tasks):
                return True
            sim.vl.advance(0.5)
    except HarnessError as e:
        if 'never becomes idle' not in str(e):
            raise
        # the validation keeps the loop busy without any time passing (e.g. it chases a certificate loop for ever)
        n_sent = len(sim.face.sent)
        sim.dead = True
        try:
            sim.face.shutdown()       # no more certificate Interests can be sent: the chase runs dry
            for t in tasks:
                t.cancel()
        except RecursionError:
            pass
        for _ in range(50):
            try:
                sim.vl.settle()
                break
            except (HarnessError, RecursionError):
                continue
        r.bad(f'C14/{tag}validation-does-not-terminate/busy-loop', f'2000 loop turns without the clock moving; {n_sent} packets sent')
        return False
    if all(t.done() for t in tasks):
        return True
    for t in tasks:
        t.cancel()
    sim.vl.settle()
    r.bad(f'C14/{tag}validation-does-not-terminate', f'still running after 20 s of virtual time, {len(sim.face.sent)} packets sent')
    return False


def _validate(sim, v, wire, r):
    name, _mi, _c, sig = parse_data(wire)
    box = {}

    async def go():
        try:
            box['res'] = bool(await v(name, sig))
        except RecursionError as e:
            box['exc'] = e
        except Exception as e:
            box['exc'] = e
    t = sim.vl.run(_spawn(go()))
    if not _wait_done(sim, [t], r, ''):
        return None
    if 'exc' in box:
        if isinstance(box['exc'], RecursionError):
            r.bad('C14/validator-recursion', repr(box['exc'])[:200])
            return None
        # an exception out of the validator is "not accepted" (the property is about acceptance)
        return False
    return box['res']


def _validate_many(sim, v, wires, r):
    boxes = [{} for _ in wires]

    async def go(i, wire):
        name, _mi, _c, sig = parse_data(wire)
        try:
            boxes[i]['res'] = bool(await v(name, sig))
        except Exception as e:
            boxes[i]['exc'] = e

    async def spawn_all():
        return [asyncio.get_running_loop().create_task(go(i, w)) for i, w in enumerate(wires)]
    ts = sim.vl.run(spawn_all())
    if not _wait_done(sim, ts, r, 'concurrent/'):
        return None
    return [b.get('res', False) for b in boxes]


async def _spawn(coro):
    return asyncio.get_running_loop().create_task(coro)


# ---- strategies ----------------------------------------------------------------------------------------------------------------
@st.composite
def _hier(draw):
    depth = draw(st.integers(1, 4))
    keys = [draw(st.sampled_from(KEYPOOL)) for _ in range(depth + 1)]
    if draw(st.integers(0, 9)) == 0:
        keys[draw(st.integers(0, depth))] = 'ed25519-0'
    return {'depth': depth, 'keys': keys, 'shared': draw(st.booleans()), 'constrained': draw(st.booleans()),
            'ids': draw(st.permutations(IDS)), 'deviation': draw(st.sampled_from(DEVIATIONS + ['self-loop', 'self-loop', 'loop'])), 'link': draw(st.integers(0, 4)),
            'loose': draw(st.integers(0, 5)) == 0, 'overlap': draw(st.integers(0, 7)) == 0}


@st.composite
def _case(draw):
    hiers = draw(st.lists(_hier(), min_size=1, max_size=2))
    if len(hiers) == 1 and draw(st.booleans()):
        # a second hierarchy with the SAME shape and schema but other keys and its own anchor
        twin = dict(hiers[0])
        twin['keys'] = [KEYPOOL[(KEYPOOL.index(k) + 1) % len(KEYPOOL)] if k in KEYPOOL else k for k in twin['keys']]
        hiers.append(twin)
    nv = draw(st.integers(1, 3))
    validators = [{'hier': draw(st.integers(0, 1)),
                   'bad_anchor': draw(st.sampled_from([None, None, None, None, None, None, 'not-self-signed', 'not-root', 'two-roots'])),
                   'anchor_rep': draw(st.sampled_from([0, 0, 1, 2]))}
                  for _ in range(nv)]
    order = draw(st.lists(st.tuples(st.integers(0, 2), st.integers(0, 7)).map(list), min_size=1, max_size=6))
    if draw(st.booleans()):
        # the same packet validated by two different instances one after the other
        p = draw(st.integers(0, 7))
        order = order[:4] + [[0, p], [1, p]]
    concurrent = draw(st.lists(st.tuples(st.integers(0, 2), st.integers(0, 7), st.integers(0, 7)).map(list), max_size=2))
    if draw(st.booleans()):
        concurrent = [[0, 0, 0]] + concurrent      # twice the good packet of the first hierarchy, before anything is cached
    return {'hiers': hiers, 'validators': validators, 'order': order, 'concurrent': concurrent, 'heal': draw(st.booleans())}


def run_many(case):
    """ONE validator instance sees MANY distinct certificates (more than any small cache holds), then is asked again about the
    first ones: a valid packet of user 0 is still accepted, and a packet that names user 0's certificate but is signed with the
    key of the last user is still refused."""
    r = Result()
    secv2.timestamp = lambda: 1_700_000_000_000
    _reset_default_caches()
    sim = AppSim('legacy')
    sim.start()
    try:
        store = {}
        face, loop = sim.face, sim.vl.loop
        orig_send = face.send

        def send(data):
            orig_send(data)
            w = bytes(data)
            if net.outer_type(w) != 5:
                return
            try:
                nm = tuple(P.strict_interest(w)['name'])
            except T.Malformed:
                return
            cw = store.get(nm)
            if cw is not None:
                loop.call_soon(lambda: loop.create_task(sim.app.face.callback(6, cw)))
        face.send = send
        h = Hier({'depth': 0, 'keys': [case['anchor_key']], 'shared': True, 'constrained': False, 'ids': IDS, 'deviation': 'none',
                  'link': 0}, 'M', store)
        sch = schema_ast(1, True, False)
        checker = Checker(compile_lvs(L.render(sch, 0)), {})
        v = sim.vl.call(lvs_validator, checker, sim.app, h.anchor_wire)
        n = case['n_users']
        pool = [k for k in KEYPOOL if K.KEYS[k]['kind'] in ('ec', 'rsa')]
        users = []
        for i in range(n):
            key = pool[(i + case['rot']) % len(pool)]
            kname = [comp('site'), comp('l1'), comp(f'u{i}'), comp('KEY'), comp(f'k{i}')]
            cname, cwire = h._issue(kname, 'Miss0', K.KEYS[key], case['anchor_key'], h.anchor_name, None)
            store[tuple(cname)] = cwire
            users.append((key, cname))

        def packet(i, seq, sign_as=None):
            key, cname = users[i]
            nm = [comp('site'), comp('data'), comp(f'u{i}'), comp(f'd{seq}')]
            return bytes(make_data(nm, MetaInfo(), b'x', _signer(users[sign_as][0] if sign_as is not None else key, cname)))
        for i in range(n):
            got = _validate(sim, v, packet(i, 0), r)
            if got is None:
                return r
            if got is not True:
                return r.bad('C14/many/rejects-valid-chain/first-round', f'user {i} of {n}')
        last = n - 1
        while users[last][0] == users[0][0]:
            last -= 1
        for i, sign_as, want, label in ((0, None, True, 'valid-again'), (0, last, False, 'names-user0-signed-by-last-user'),
                                        (1, None, True, 'valid-again'), (last, None, True, 'valid-again')):
            got = _validate(sim, v, packet(i, 1, sign_as), r)
            if got is None:
                return r
            if got != want:
                return r.bad(f'C14/many/{"accepts-invalid-chain" if got else "rejects-valid-chain"}/{label}',
                             f'after {n} distinct certificates through one validator: user {i}, signed as {sign_as}')
    finally:
        try:
            sim.finish()
        finally:
            sim.close()
    r.key = (case['n_users'] // 8, case['anchor_key'])
    r.classes = (f'users:{case["n_users"] // 8 * 8}+',)
    return r


def run_burst(case):
    """ONE cold validator instance is asked about a burst of K valid packets at the same time (each needs the whole chain of
    not yet cached certificates): every one of them gets its verdict - accepted."""
    r = Result()
    secv2.timestamp = lambda: 1_700_000_000_000
    _reset_default_caches()
    sim = AppSim('legacy')
    sim.start()
    try:
        store = {}
        face, loop = sim.face, sim.vl.loop
        orig_send = face.send

        def send(data):
            orig_send(data)
            w = bytes(data)
            if net.outer_type(w) != 5:
                return
            try:
                nm = tuple(P.strict_interest(w)['name'])
            except T.Malformed:
                return
            cw = store.get(nm)
            if cw is not None:
                loop.call_later(case['latency_ms'] / 1000, lambda: loop.create_task(sim.app.face.callback(6, cw)))
        face.send = send
        spec = {'depth': case['depth'], 'keys': case['keys'][:case['depth'] + 1], 'shared': True, 'constrained': False, 'ids': IDS,
                'deviation': 'none', 'link': 0}
        h = Hier(spec, 'B', store)
        checker = Checker(compile_lvs(L.render(schema_ast(case['depth'], True, False), 0)), {})
        # the key cache is the caller's choice: the default one, one that keeps nothing, or one that forgets now and then
        from ndn.security.validator.cascade_validator import EmptyKeyStorage, MemoryKeyStorage

        class _Forgetful(MemoryKeyStorage):
            n = 0

            def load(self, name):
                self.n += 1
                return None if self.n % 3 == 0 else super().load(name)
        storage = {'default': None, 'empty': EmptyKeyStorage(), 'forgetful': _Forgetful()}[case.get('storage', 'default')]
        v = sim.vl.call(lambda: lvs_validator(checker, sim.app, h.anchor_wire, storage) if storage is not None
                        else lvs_validator(checker, sim.app, h.anchor_wire))
        wires = [h.data_packet(IDS[0], i)[1] for i in range(case['k'])]
        if case.get('abandon'):
            # the caller gives up on a validation while a certificate is being fetched (its own deadline), and asks again later in
            # the SAME task: the second attempt is judged on its own
            name0, _mi, _c, sig0 = parse_data(wires[0])
            box = {}

            async def twice():
                try:
                    await asyncio.wait_for(v(name0, sig0), max(case['latency_ms'], 2) / 2000)
                    box['first'] = 'finished'
                except Exception as e_:      # TimeoutError, or the library's InterestCanceled coming out of the cancelled fetch
                    box['first'] = f'abandoned ({type(e_).__name__})'
                await asyncio.sleep(0.5)
                box['second'] = bool(await v(name0, sig0))
            t = sim.vl.run(_spawn(twice()))
            if not _wait_done(sim, [t], r, 'abandon/'):
                return r
            if t.exception() is not None:
                return r.bad(f'C14/burst/retry-after-abandoned-attempt/raised/{type(t.exception()).__name__}', repr(t.exception())[:200])
            if box.get('second') is not True:
                return r.bad('C14/burst/rejects-valid-chain/retry-after-abandoned-attempt', f'first attempt {box.get("first")}, second verdict {box.get("second")}')
        for rnd in range(2):
            got = _validate_many(sim, v, wires, r)
            if got is None:
                return r
            if not all(got):
                return r.bad(f'C14/burst/rejects-valid-chain/round-{rnd}', f'{got.count(False)} of {len(got)} valid packets refused (depth {case["depth"]})')
        if case.get('storage') == 'empty' and case.get('withdraw') is not None:
            # the caller chose to keep NO keys: every validation retrieves its certificates anew.  One certificate of the chain is
            # withdrawn (no longer served) after the validations above: a packet depending on it has no retrievable chain now
            lvl = 1 + case['withdraw'] % case['depth']
            del store[tuple(h.certs[lvl]['name'])]
            late = [h.data_packet(IDS[0], case['k'] + 1)[1], wires[0]]
            got = _validate_many(sim, v, late, r)
            if got is None:
                return r
            if any(got):
                return r.bad('C14/burst/accepts-invalid-chain/certificate-withdrawn-no-key-cache',
                             f'certificate of level {lvl} (depth {case["depth"]}) is no longer retrievable and the validator keeps no keys: verdicts {got}')
    finally:
        try:
            sim.finish()
        except Exception:
            if not getattr(sim, 'dead', False):
                raise
        finally:
            sim.close()
    r.key = (case['k'], case['depth'], case['latency_ms'], case.get('storage'), bool(case.get('abandon')))
    r.classes = (f'burst:{case["k"]}', f'depth:{case["depth"]}', f'storage:{case.get("storage", "default")}') + \
        (('abandoned-attempt',) if case.get('abandon') else ())
    return r


def _burst_case():
    ecrsa = [k for k in KEYPOOL if K.KEYS[k]['kind'] in ('ec', 'rsa')]
    return st.fixed_dictionaries({'k': st.sampled_from([40, 20, 12, 8, 17, 33, 64]), 'depth': st.sampled_from([4, 3, 2]),
                                  'latency_ms': st.sampled_from([0, 1, 10]), 'storage': st.sampled_from(['default', 'empty', 'forgetful']),
                                  'abandon': st.booleans(), 'withdraw': st.sampled_from([None, 0, 1, 2, 3]),
                                  'keys': st.lists(st.sampled_from(ecrsa), min_size=5, max_size=5)})


def _many_case():
    return st.fixed_dictionaries({'n_users': st.sampled_from([66, 65, 70, 130, 129, 33]), 'rot': st.integers(0, 6),
                                  'anchor_key': st.sampled_from(['p256-0', 'p256-1', 'rsa1024-0'])})


SUBCHECKS = {
    'many-certificates': SubCheck(run_many, strategy=lambda tier: _many_case(), examples={'quick': 16, 'thorough': 80},
                                  note='one validator instance validates packets of 33..130 users (one certificate each), then the '
                                       'first users again and a cross-signed forgery'),
    'burst': SubCheck(run_burst, strategy=lambda tier: _burst_case(), examples={'quick': 32, 'thorough': 300},
                      note='8..64 valid packets validated at the same time by one cold instance, chains of depth 2..4'),
    'histories': SubCheck(run_case, strategy=lambda tier: _case(), examples={'quick': 1200, 'thorough': 10000}),
}
