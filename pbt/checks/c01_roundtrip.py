"""C01 - Interest/Data encode -> decode round trip, exact well-formed wire."""
import traceback

from hypothesis import strategies as st

import ndn.security.signer.sha256_digest_signer as _dsig
from ndn.encoding import (InterestParam, MetaInfo, make_data, make_interest, parse_data, parse_interest)

from .. import keys as K
from .. import pkt as P
from .. import strats as S
from ..core import Result, SubCheck
from ..refs import tlv as T

PROPERTY_ID = 'C01'
RULE = ('Hypothesis-generated Interest/Data cases: name 0..6 components of any type in one of 7 input representations; '
        'every subset of InterestParam / MetaInfo fields (values at integer width edges); payload None, short, or sized so '
        'that the TOTAL packet length lands on 253+-14 / 65536+-14 / anywhere <= 70000; signer in {none, digest, null, HMAC, '
        'RSA-1024/2048, ECDSA P-256/384/521 with pinned nonce, Ed25519, synthetic Signer reserving R<253 and writing r<=R}. '
        'Oracle: emitted wire must be byte-identical to the packet assembled by an independent encoder (signature value '
        'checked by independent verification), strict walk must succeed, and parse_* must return the inputs. '
        'Half of the cases re-use the caller\'s name object: it must be unchanged after the call and a second packet built from it '
        'must be identical. Grid sub-check enumerates (R, r) x outer-length boundary offsets x kind completely. '
        'Non-trivial = signature shrunk, or outer length changes encoding form between reserved and final size, or >=2 optional '
        'fields; distinct key = (kind, signer kind, shrink, length form before->after, optional-field bitmask).')
ASSUMPTIONS = [
    'Interests get a ParametersSha256 placeholder only where one is required (documented ValueError otherwise, checked in sub-check misuse)',
    'MetaInfo content_type None and 0 (BLOB) are the same value (NDN default); parse_data returns MetaInfo() for an absent MetaInfo',
    'variable-length signatures reserve < 253 bytes (documented limit of the library)',
    'pycryptodome is trusted for the reference verification',
]


def _exc_sig(e):
    tb = traceback.extract_tb(e.__traceback__)
    where = next((f.name for f in reversed(tb) if '/ndn/' in f.filename), '?')
    return f'{type(e).__name__}@{where}'


_NESTED = {}


def _nested_packets():
    """Two small packets built by the library (compared with what the same calls give outside any nesting)."""
    d = bytes(make_data([T.enc_tlv(8, b'nested'), T.enc_tlv(8, b'data')], MetaInfo(content_type=1, freshness_period=5), b'inner', None))
    i = bytes(make_interest([T.enc_tlv(8, b'nested'), T.enc_tlv(8, b'interest')], InterestParam(nonce=9, lifetime=77), b'in', None))
    return d, i


def _make_reentrant(signer, log):
    """The signer builds other packets while it is asked about this one (an audit record, a key request, ...): a legal Signer."""
    if signer is None:
        return
    for meth in ('write_signature_info', 'get_signature_value_size'):
        orig = getattr(signer, meth)

        def wrapped(*a, _orig=orig, **k):
            log.append(_nested_packets())
            return _orig(*a, **k)
        setattr(signer, meth, wrapped)


def build(case):
    """Run the library encoder on a case. -> (wire bytes, payload, signer, final_name or None)"""
    exp = P.Expected(case)
    payload = P.payload_bytes(case['payload'], exp.overhead)
    is_int = case['kind'] == 'interest'
    signer = K.make_signer(case['signer'], for_interest=is_int)
    if case.get('nested'):
        if 'ref' not in _NESTED:
            _NESTED['ref'] = _nested_packets()
        _NESTED['log'] = []
        _make_reentrant(signer, _NESTED['log'])
    name_arg = P.name_in_rep(case['name'], case['name_rep'])
    if is_int:
        _dsig.timestamp = lambda: case['sig_time']
        _dsig.gen_nonce_64 = lambda: case['sig_nonce']
        p = case['params']
        kw = dict(can_be_prefix=p['can_be_prefix'], must_be_fresh=p['must_be_fresh'], nonce=p['nonce'],
                  lifetime=p['lifetime'], hop_limit=p['hop_limit'],
                  forwarding_hint=[[S.comp_bytes(c) for c in n] for n in p['forwarding_hint']])
        # (the dict constructor is an equivalent way to state the same field combination, explicit None included)
        ip = InterestParam.from_dict(kw) if case.get('reuse') else InterestParam(**kw)
        wire, final_name = make_interest(name_arg, ip, payload, signer, need_final_name=True)
        return exp, bytes(wire), payload, signer, [bytes(c) for c in final_name]
    m = case['meta']
    fb = None if m is None or m['final_block_id'] is None else bytes.fromhex(m['final_block_id'])
    if m is None:
        mi = None
    elif case.get('reuse'):
        mi = MetaInfo.from_dict({'content_type': m['content_type'], 'freshness_period': m['freshness_period'], 'final_block_id': fb})
    else:
        mi = MetaInfo(m['content_type'], m['freshness_period'], fb)
    wire = make_data(name_arg, mi, payload, signer)
    return exp, bytes(wire), payload, signer, None


def optional_mask(case):
    if case['kind'] == 'data':
        m = case['meta'] or {}
        bits = [case['meta'] is not None, m.get('content_type') is not None, m.get('freshness_period') is not None,
                m.get('final_block_id') is not None, case['payload'] is not None]
    else:
        p = case['params']
        bits = [p['can_be_prefix'], p['must_be_fresh'], p['nonce'] is not None, p['lifetime'] is not None,
                p['hop_limit'] is not None, bool(p['forwarding_hint']), case['payload'] is not None,
                case['digest_pos'] is not None]
    return sum(1 << i for i, b in enumerate(bits) if b), sum(bool(b) for b in bits)


def _snapshot(x):
    if isinstance(x, (list, tuple)):
        return [bytes(c) if not isinstance(c, str) else c for c in x]
    return bytes(x) if not isinstance(x, str) else x


def run_case(case):
    r = Result()
    kind = case['kind']
    skind = case['signer']['kind']
    try:
        exp, wire, payload, signer, final_name = build(case)
    except Exception as e:
        return r.bad(f'C01/encode-exception/{kind}/{_exc_sig(e)}', f'{e!r}')
    if case.get('nested') and signer is not None:
        if not _NESTED['log']:
            return r.bad('C01/harness/reentrant-signer-not-called', '')
        if any(p != _NESTED['ref'] for p in _NESTED['log']):
            return r.bad(f'C01/nested-packet-differs/{kind}', 'a packet built by the signer while the outer packet was being encoded')
    # the caller's own objects are inputs, not scratch space: build a second packet from the SAME name object
    if case.get('reuse') and case['signer']['kind'] not in ('ecdsa',) and case['name_rep'] % 10 not in (8, 9):
        try:
            name_obj = P.name_in_rep(case['name'], case['name_rep'])
            before = _snapshot(name_obj)
            wires = []
            for _ in range(2):
                if kind == 'interest':
                    p_ = case['params']
                    _dsig.timestamp = lambda: case['sig_time']
                    _dsig.gen_nonce_64 = lambda: case['sig_nonce']
                    ip = InterestParam(can_be_prefix=p_['can_be_prefix'], must_be_fresh=p_['must_be_fresh'], nonce=p_['nonce'],
                                       lifetime=p_['lifetime'], hop_limit=p_['hop_limit'],
                                       forwarding_hint=[[S.comp_bytes(c) for c in n] for n in p_['forwarding_hint']])
                    wires.append(bytes(make_interest(name_obj, ip, payload, K.make_signer(case['signer'], for_interest=True))))
                else:
                    m_ = case['meta']
                    mi = None if m_ is None else MetaInfo(m_['content_type'], m_['freshness_period'],
                                                          None if m_['final_block_id'] is None else bytes.fromhex(m_['final_block_id']))
                    wires.append(bytes(make_data(name_obj, mi, payload, K.make_signer(case['signer']))))
            if kind == 'data' and case['meta'] is not None and case['signer']['kind'] in ('none', 'digest', 'hmac', 'synthetic', 'null'):
                # the same MetaInfo OBJECT is used for a first packet, one of its fields is re-assigned, and it is used again
                m_ = case['meta']
                fb1 = None if m_['final_block_id'] is None else bytes.fromhex(m_['final_block_id'])
                mi_obj = MetaInfo(m_['content_type'], m_['freshness_period'], fb1)
                first_w = bytes(make_data(P.name_in_rep(case['name'], 0), mi_obj, payload, K.make_signer(case['signer'])))
                # (exactly ONE field is re-assigned: which one is drawn with the case)
                fb2, fp2 = fb1, m_['freshness_period']
                if case['name_rep'] % 2 == 0:
                    fb2 = None if fb1 is not None else b'\x32\x01\x07'
                    mi_obj.final_block_id = fb2
                else:
                    fp2 = ((m_['freshness_period'] or 0) + 1) % 2 ** 64
                    mi_obj.freshness_period = fp2
                case2 = dict(case, meta=dict(m_, final_block_id=None if fb2 is None else fb2.hex(), freshness_period=fp2))
                second_w = bytes(make_data(P.name_in_rep(case['name'], 0), mi_obj, payload, K.make_signer(case['signer'])))
                exp2 = P.Expected(case2)
                want2, _sp2, _f2 = exp2.assemble(payload, P.strict_data(second_w)['sig_value'] or b'') if True else (None, None, None)
                if first_w != wire:
                    r.bad('C01/second-packet-from-same-name-object-differs/data', 'fresh MetaInfo object')
                if second_w != want2:
                    r.bad('C01/meta-info-object-reused-after-reassignment', f'{second_w.hex()[:100]} expected {want2.hex()[:100]}')
            if _snapshot(name_obj) != before:
                r.bad(f'C01/caller-name-object-modified/{kind}', f'rep {case["name_rep"] % 10}: {before} -> {_snapshot(name_obj)}')
            if wires[0] != wire or wires[1] != wire:
                r.bad(f'C01/second-packet-from-same-name-object-differs/{kind}', f'rep {case["name_rep"] % 10}')
        except Exception as e:
            r.bad(f'C01/reuse-exception/{kind}/{_exc_sig(e)}', f'{e!r}')
        if r.violations:
            return r
    # (1) exactly one well-formed element, exact lengths, everything nested inside its parent
    try:
        sd = P.strict_data(wire) if kind == 'data' else P.strict_interest(wire)
    except T.Malformed as e:
        return r.bad(f'C01/wire-malformed/{kind}/{skind}', f'{e}; wire={wire[:80].hex()}.. len={len(wire)}')
    sig_value = sd['sig_value']
    if exp.signed and sig_value is None:
        return r.bad(f'C01/no-signature-value/{kind}/{skind}', wire[:80].hex())
    # (2) byte-exact agreement with the independent assembly
    exp_wire, signed_portion, exp_final = exp.assemble(payload, sig_value if sig_value is not None else b'')
    if wire != exp_wire:
        i = next((i for i, (a, b) in enumerate(zip(wire, exp_wire)) if a != b), min(len(wire), len(exp_wire)))
        r.bad(f'C01/wire-differs/{kind}/{skind}', f'len {len(wire)} vs {len(exp_wire)}, first diff at {i}: '
              f'{wire[max(0, i - 8):i + 16].hex()} vs {exp_wire[max(0, i - 8):i + 16].hex()}')
    if exp.signed:
        if not K.ref_verify(case['signer'], signed_portion, sig_value):
            r.bad(f'C01/signature-invalid/{kind}/{skind}', f'sig={sig_value.hex()[:60]} len={len(sig_value)}')
        reserved = P.reserved_size(case['signer'])
        if skind == 'synthetic' and len(sig_value) != case['signer']['r']:
            r.bad(f'C01/signature-length/{kind}', f'{len(sig_value)} != {case["signer"]["r"]}')
        shrink = reserved - len(sig_value)
    else:
        shrink = 0
    # the name returned with need_final_name=True is the name on the wire (the applications key their pending-Interest table by it)
    if kind == 'interest' and final_name is not None:
        try:
            wire_name = P.strict_interest(wire)['name']
            if final_name != wire_name:
                r.bad('C01/final-name-differs-from-wire-name' + ('/caller-supplied-placeholder' if case.get('digest_pos') is not None else ''),
                      f'{[c.hex()[:20] for c in final_name]} != {[c.hex()[:20] for c in wire_name]}')
        except T.Malformed:
            pass
    # (3) the library's own parser returns the inputs
    try:
        if kind == 'data':
            name, meta, content, sig = parse_data(wire)
        else:
            name, params, content, sig = parse_interest(wire)
    except Exception as e:
        return r.bad(f'C01/parse-exception/{kind}/{_exc_sig(e)}', f'{e!r} wire={wire[:80].hex()}')
    want_name = exp_final if kind == 'interest' else [T.enc_tlv(t, v) for t, v in exp.name]
    if [bytes(c) for c in name] != want_name:
        r.bad(f'C01/parsed-name/{kind}', f'{[bytes(c).hex() for c in name]} != {[c.hex() for c in want_name]}')
    if kind == 'data':
        m = case['meta'] or {'content_type': 0, 'freshness_period': None, 'final_block_id': None}
        got = (meta.content_type or 0, meta.freshness_period,
               None if meta.final_block_id is None else bytes(meta.final_block_id).hex())
        want = (m['content_type'] or 0, m['freshness_period'], m['final_block_id'])
        if got != want:
            r.bad('C01/parsed-metainfo', f'{got} != {want}')
        want_content = payload
    else:
        p = case['params']
        got = (bool(params.can_be_prefix), bool(params.must_be_fresh), params.nonce, params.lifetime, params.hop_limit,
               [[bytes(c) for c in n] for n in params.forwarding_hint])
        want = (p['can_be_prefix'], p['must_be_fresh'], p['nonce'], p['lifetime'], p['hop_limit'],
                [[S.comp_bytes(c) for c in n] for n in p['forwarding_hint']])
        if got != want:
            r.bad('C01/parsed-params', f'{got} != {want}')
        want_content = payload if payload is not None else (b'' if exp.signed else None)
    if (None if content is None else bytes(content)) != want_content:
        r.bad(f'C01/parsed-payload/{kind}', f'len {None if content is None else len(content)} vs '
              f'{None if want_content is None else len(want_content)}')
    if exp.signed:
        if sig.signature_value_buf is None or bytes(sig.signature_value_buf) != sig_value:
            r.bad(f'C01/parsed-sigvalue/{kind}', '')
        si = sig.signature_info
        if si is None or si.signature_type != K.SIG_TYPE[skind]:
            r.bad(f'C01/parsed-sigtype/{kind}', f'{si}')
        else:
            kl = case['signer'].get('kl')
            has_kl = kl is not None and skind not in ('digest', 'null')
            got_kl = None if si.key_locator is None or si.key_locator.name is None else [bytes(c) for c in si.key_locator.name]
            if got_kl != (S.name_comps(kl) if has_kl else None):
                r.bad(f'C01/parsed-keylocator/{kind}', f'{got_kl}')
    elif sig.signature_info is not None or sig.signature_value_buf is not None:
        r.bad(f'C01/parsed-phantom-signature/{kind}', '')
    # classification
    lb = T.num_size(T.single(wire)[3] - T.single(wire)[2] + shrink)
    la = T.num_size(T.single(wire)[3] - T.single(wire)[2])
    mask, nopt = optional_mask(case)
    nontrivial = shrink > 0 or lb != la or nopt >= 2
    r.key = (kind, skind, shrink, lb, la, mask) if nontrivial else None
    r.classes = (kind, f'signer:{skind}', f'shrink:{"0" if shrink == 0 else "1-3" if shrink <= 3 else ">3"}',
                 f'outerlen:{lb}->{la}', f'size:{"<253" if len(wire) < 253 else "<65536" if len(wire) < 65536 else ">=65536"}')
    return r


# ---- complete grid: (R, r) x total-length offset around the two length boundaries x kind --------------
def _grid(tier):
    Rs = [0, 1, 2, 3, 8, 70, 72, 250, 252] if tier == 'quick' else list(range(0, 12)) + [31, 32, 33, 64, 70, 71, 72, 104, 140, 250, 251, 252]
    for kind in ('data', 'interest'):
        for R in Rs:
            rs = sorted({R, max(0, R - 1), max(0, R - 2), max(0, R - 3), max(0, R - 4), 0, R // 2})
            for rr in rs:
                for boundary in (253, 65536):
                    offs = range(-3, 9) if tier == 'quick' else range(-12, 13)
                    if boundary == 65536 and tier == 'quick' and R not in (3, 72):
                        continue
                    for off in offs:
                        signer = {'kind': 'synthetic', 'R': R, 'r': rr, 'kl': [[8, '6b']], 'fill': 1}
                        if kind == 'data':
                            yield {'kind': 'data', 'name': [[8, '61']], 'name_rep': 0, 'meta': None,
                                   'payload': {'total': boundary + off, 'fill': 3}, 'signer': signer}
                        else:
                            yield {'kind': 'interest', 'name': [[8, '61']], 'name_rep': 0, 'digest_pos': None,
                                   'params': {'can_be_prefix': False, 'must_be_fresh': False, 'nonce': None, 'lifetime': None,
                                              'hop_limit': None, 'forwarding_hint': []},
                                   'payload': {'total': boundary + off, 'fill': 3}, 'signer': signer,
                                   'sig_time': 1, 'sig_nonce': 1}


# ---- misuse side branch: documented ValueError ------------------------------------------------------
def run_misuse(case):
    r = Result()
    name = P.name_in_rep(case['name'], case['name_rep'])
    payload = None if case['payload'] is None else bytes.fromhex(case['payload'])
    ndig = sum(1 for c in case['name'] if c[0] == 2)
    need = payload is not None
    must_raise = (ndig >= 1 and not need) or ndig >= 2
    try:
        make_interest(name, InterestParam(), payload)
        raised = None
    except ValueError as e:
        raised = e
    except Exception as e:
        return r.bad(f'C01/misuse/{_exc_sig(e)}', repr(e))
    if must_raise and raised is None:
        r.bad('C01/misuse/not-refused', f'{case}')
    if not must_raise and raised is not None:
        r.bad('C01/misuse/refused-legal', f'{raised!r} {case}')
    r.key = (ndig, need, len(case['name'])) if ndig else None
    return r


@st.composite
def _misuse(draw):
    name = draw(S.name(0, 4, max_len=8, allow_digest_types=False))
    for _ in range(draw(st.integers(0, 2))):
        name.insert(draw(st.integers(0, len(name))), [2, draw(st.binary(min_size=32, max_size=32)).hex()])
    return {'name': name, 'name_rep': draw(st.integers(0, 6)),
            'payload': draw(st.one_of(st.none(), st.binary(max_size=8).map(bytes.hex)))}


SUBCHECKS = {
    'grid': SubCheck(run_case, enumerate=_grid, exhaustive={'quick': True, 'thorough': True},
                     note='synthetic signer (R reserved, r written) x total size offset around 253 / 65536 x kind; complete for the listed R values'),
    'packets': SubCheck(run_case, strategy=lambda tier: P.packet_case(),
                        examples={'quick': 4000, 'thorough': 120000}),
    'misuse': SubCheck(run_misuse, strategy=lambda tier: _misuse(), examples={'quick': 400, 'thorough': 5000}),
}
