"""C15 - keychain contents, defaults and signers stay consistent over any history (with storage faults)."""
import datetime
import hashlib
import os
import shutil
import sqlite3
import tempfile

from Cryptodome.PublicKey import ECC, RSA
from hypothesis import strategies as st

import ndn.security.tpm.tpm as tpm_mod
import ndn.security.tpm.tpm_file as tpm_file_mod
from ndn.app_support.security_v2 import derive_cert
from ndn.encoding import Component, MetaInfo, Name, make_data
from ndn.security import KeychainSqlite3, TpmFile

from .. import keys as K
from .. import pkt as P
from ..core import Result, SubCheck
from ..refs import tlv as T
from ..sim import net

PROPERTY_ID = 'C15'
RULE = ('Histories on KeychainSqlite3 + TpmFile in a per-case temp directory: new_identity, touch_identity, new_key(ec|rsa, random or '
        'explicit key id; key material from a committed pool), import_cert (issued with derive_cert), set_default_{identity,key,cert}, '
        'del_{cert,key,identity}, get_signer over every documented argument form ({}, identity name/object, key name/object, cert '
        'name/object, key_locator, digest_sha256, no_signature), reopen; fault(k): the next mutating operation runs with a storage '
        'failure (sqlite3.OperationalError from execute/commit, OSError from the private-key store) at its k-th internal step, '
        'optionally followed by a crash (reopen without commit). Oracle: dict model of identities -> keys -> certificates with '
        'defaults; after EVERY step the three view levels obey the Mapping laws scoped to their owner, defaults equal the model, '
        'deleted things are unreachable and their private keys gone; get_signer signs with the model-selected key (verified with '
        'pycryptodome against the stored public key) and names the selected certificate; after a fault: invariants hold and repeating '
        'the operation succeeds with its postcondition. The fault sub-check enumerates every step index of every operation kind. '
        'Non-trivial = a delete followed by get_signer or reopen, or a fault; distinct key = op-kind sequence.')
ASSUMPTIONS = [
    'faults are injected at API-step granularity (no power-loss / fsync modelling)',
    'after a fault episode the model is re-synchronised from the raw tables (the partially applied state is legitimate as long '
    'as the invariants and the repeated operation\'s postcondition hold)',
    'new_identity on an identity that the failed attempt already created may raise KeyError("already exists")',
    'key names have the form identity/KEY/key-id, which get_signer relies on',
]

# (the last identity has a component spelled like the KEY marker of key names)
ID_POOL = [['a'], ['a', 'b'], ['c'], ['d', 'e', 'f'], ['org', 'KEY', 'escrow']]
EC_POOL = ['p256-0', 'p256-1', 'p256-2', 'p256-3']
RSA_POOL = ['rsa2048-0', 'rsa2048-1']


class _Injected(Exception):
    pass


class Fault:
    def __init__(self):
        self.count = 0
        self.at = None
        self.fired = False

    def arm(self, k):
        self.count, self.at, self.fired = 0, k, False

    def disarm(self):
        self.at = None

    def step(self, kind):
        if self.at is None:
            return
        self.count += 1
        if self.count == self.at:
            self.fired = True
            self.at = None
            if kind == 'db':
                raise sqlite3.OperationalError('injected storage failure')
            raise OSError('injected storage failure')


class ConnProxy:
    def __init__(self, conn, fault):
        self._c, self._f = conn, fault

    def execute(self, *a, **k):
        self._f.step('db')
        return self._c.execute(*a, **k)

    def commit(self):
        self._f.step('db')
        return self._c.commit()

    def close(self):
        return self._c.close()

    def __getattr__(self, n):
        return getattr(self._c, n)


class FaultyTpm(TpmFile):
    fault = None

    def save_key(self, key_name, key_der):
        self.fault.step('tpm')
        return super().save_key(key_name, key_der)

    def delete_key(self, key_name):
        # the failure happens INSIDE the key store, at the file operation (e.g. EACCES on the key directory)
        real_os = tpm_file_mod.os
        fault = self.fault

        class _Os:
            def __getattr__(self, n):
                return getattr(real_os, n)

            def remove(self, path):
                if fault.at is not None:
                    fault.count += 1
                    if fault.count == fault.at:
                        fault.fired = True
                        fault.at = None
                        raise PermissionError(13, 'injected: permission denied', path)
                return real_os.remove(path)
        tpm_file_mod.os = _Os()
        try:
            return super().delete_key(key_name)
        finally:
            tpm_file_mod.os = real_os

    def get_signer(self, key_name, key_locator_name=None):
        self.fault.step('tpm')
        return super().get_signer(key_name, key_locator_name)


class _GenShim:
    """Stands in for Cryptodome.PublicKey.{RSA,ECC} inside tpm_file: generate() hands out pooled keys."""

    def __init__(self, real, pool, state):
        self._real, self._pool, self._state = real, pool, state

    def generate(self, *a, **k):
        name = self._pool[self._state['n'] % len(self._pool)]
        self._state['n'] += 1
        self._state['last'] = name
        return self._real.import_key(K.KEYS[name]['priv'])

    def __getattr__(self, n):
        return getattr(self._real, n)


_KIDS = [('k0', net.comp('k0')), ('k1', net.comp('k1')), ('k2', net.comp('k2')), ('k3', net.comp('k3')),
         ('ops%2F2024', T.enc_tlv(8, b'ops/2024')), ('v=7', T.enc_tlv(54, b'\x07')), ('%00x', T.enc_tlv(8, b'\x00x'))]


def nm(lst):
    return [net.comp(x) for x in lst]


class World:
    def __init__(self, seed):
        self.dir = tempfile.mkdtemp(prefix='c15-')
        self.db = os.path.join(self.dir, 'pib.db')
        self.tpm_dir = os.path.join(self.dir, 'keys')
        KeychainSqlite3.initialize(self.db, 'tpm-file', self.tpm_dir)
        self.fault = Fault()
        self.gen_state = {'n': seed, 'last': None}
        tpm_file_mod.RSA = _GenShim(RSA, RSA_POOL, self.gen_state)
        tpm_file_mod.ECC = _GenShim(ECC, EC_POOL, self.gen_state)
        K.pin(seed)
        tpm_mod.get_random_bytes = K.DRBG.read
        self.kc = None
        self.open()

    def open(self):
        tpm = FaultyTpm(self.tpm_dir)
        tpm.fault = self.fault
        self.kc = KeychainSqlite3(self.db, tpm)
        self.kc.conn = ConnProxy(self.kc.conn, self.fault)
        self.handles = {}         # Identity objects the application obtained earlier and still holds (they outlive deletions)

    def reopen(self, clean=True):
        try:
            if clean:
                self.kc.shutdown()
            else:
                self.kc.conn._c.close()       # crash: no commit, connection dropped
                self.kc.conn = None
        except Exception:
            pass
        self.open()

    def close(self):
        try:
            if self.kc is not None and self.kc.conn is not None:
                self.kc.shutdown()
        except Exception:
            pass
        tpm_file_mod.RSA, tpm_file_mod.ECC = RSA, ECC
        shutil.rmtree(self.dir, ignore_errors=True)

    # raw, independent view of the store (own SQL on a separate connection)
    def raw(self):
        # own SQL, but through the keychain's underlying connection: a failed commit leaves a transaction open on it, and
        # what the object shows (and will eventually commit) is the state the invariants are about
        c = self.kc.conn._c
        try:
            ids = {}
            for rid, name, dflt in c.execute('SELECT id, identity, is_default FROM identities'):
                ids[rid] = {'name': bytes(name), 'default': bool(dflt), 'keys': {}}
            keys = {}
            for kid, iid, name, bits, dflt in c.execute('SELECT id, identity_id, key_name, key_bits, is_default FROM keys'):
                keys[kid] = {'name': bytes(name), 'bits': bytes(bits), 'default': bool(dflt), 'certs': {}, 'iid': iid}
            for cid, kid, name, data, dflt in c.execute('SELECT id, key_id, certificate_name, certificate_data, is_default FROM certificates'):
                if kid in keys:
                    keys[kid]['certs'][bytes(name)] = {'data': bytes(data), 'default': bool(dflt)}
            model = {}
            for rid, i in ids.items():
                ks = {k['name']: {'bits': k['bits'], 'certs': {cn: cv['data'] for cn, cv in k['certs'].items()},
                                  'default_cert': next((cn for cn, cv in k['certs'].items() if cv['default']), None)}
                      for k in keys.values() if k['iid'] == rid}
                model[i['name']] = {'keys': ks,
                                    'default_key': next((k['name'] for k in keys.values() if k['iid'] == rid and k['default']), None)}
            dflt_id = next((i['name'] for i in ids.values() if i['default']), None)
            # "deleting an identity or key removes everything beneath it": rows whose owner is gone are leftovers
            self.orphans = ([f'certificate {bytes(n)[:40]!r} of missing key row {kid}' for _c, kid, n, _d, _f in
                             c.execute('SELECT id, key_id, certificate_name, certificate_data, is_default FROM certificates')
                             if kid not in keys]
                            + [f'key {k["name"][:40]!r} of missing identity row {k["iid"]}' for k in keys.values() if k['iid'] not in ids])
            return model, dflt_id
        finally:
            pass


# ---------------- the invariants (after every step) --------------------------------------------------------------------------
def check_views(w, model, default_id, r, where, after_fault=False):
    kc = w.kc
    try:
        listed = [Name.to_bytes(n) for n in kc]
        if len(listed) != len(set(listed)):
            return r.bad('C15/views/identities-duplicated', where)
        if len(kc) != len(listed):
            return r.bad('C15/views/identities-len', f'{len(kc)} != {len(listed)} {where}')
        if set(listed) != set(model):
            return r.bad('C15/views/identities-differ-from-model', f'{sorted(listed)} != {sorted(model)} {where}')
        if kc.has_default_identity() != (default_id is not None):
            return r.bad('C15/defaults/has_default_identity', f'{kc.has_default_identity()} model {default_id} {where}')
        if default_id is not None and Name.to_bytes(kc.default_identity().name) != default_id:
            return r.bad('C15/defaults/default_identity', where)
        n_default = 0
        all_keys = {kn: idn for idn, i in model.items() for kn in i['keys']}
        all_certs = {cn: kn for i in model.values() for kn, k in i['keys'].items() for cn in k['certs']}
        for idn, imodel in model.items():
            if idn not in kc:
                return r.bad('C15/views/identity-not-in', where)
            ident = kc[idn]
            if Name.to_bytes(ident.name) != idn:
                return r.bad('C15/views/identity-name', where)
            n_default += bool(ident.is_default)
            if bool(ident.is_default) != (idn == default_id):
                return r.bad('C15/defaults/identity-is_default-flag', where)
            klist = [Name.to_bytes(n) for n in ident]
            if len(klist) != len(set(klist)) or set(klist) != set(imodel['keys']):
                return r.bad('C15/views/keys-differ-from-model', f'{klist} != {sorted(imodel["keys"])} {where}')
            if len(ident) != len(klist):
                return r.bad('C15/views/identity-len', f'len {len(ident)} but iterates {len(klist)} keys {where}')
            for other, owner in all_keys.items():
                if owner == idn:
                    continue
                if other in ident:
                    return r.bad('C15/views/identity-contains-foreign-key', f'{where}')
                try:
                    ident[other]
                    return r.bad('C15/views/identity-lookup-not-scoped', f'identity returns a key of another identity {where}')
                except KeyError:
                    pass
            if ident.has_default_key() != (imodel['default_key'] is not None):
                return r.bad('C15/defaults/has_default_key', f'{ident.has_default_key()} model {imodel["default_key"]} {where}')
            if imodel['default_key'] is not None and Name.to_bytes(ident.default_key().name) != imodel['default_key']:
                return r.bad('C15/defaults/default_key', where)
            for kn, kmodel in imodel['keys'].items():
                if kn not in ident:
                    return r.bad('C15/views/key-not-in', where)
                key = ident[kn]
                if Name.to_bytes(key.name) != kn or bytes(key.key_bits) != kmodel['bits'] or Name.to_bytes(key.identity) != idn:
                    return r.bad('C15/views/key-fields', where)
                if bool(key.is_default) != (kn == imodel['default_key']):
                    return r.bad('C15/defaults/key-is_default-flag', where)
                clist = [Name.to_bytes(n) for n in key]
                if len(clist) != len(set(clist)) or set(clist) != set(kmodel['certs']):
                    return r.bad('C15/views/certs-differ-from-model', f'{len(clist)} vs {len(kmodel["certs"])} {where}')
                if len(key) != len(clist):
                    return r.bad('C15/views/key-len', f'len(key)={len(key)} but it iterates {len(clist)} certificates {where}')
                for other, owner in all_certs.items():
                    if owner == kn:
                        continue
                    if other in key:
                        return r.bad('C15/views/key-contains-foreign-cert', where)
                    try:
                        key[other]
                        return r.bad('C15/views/key-lookup-not-scoped', f'key returns a certificate of another key {where}')
                    except KeyError:
                        pass
                if key.has_default_cert() != (kmodel['default_cert'] is not None):
                    return r.bad('C15/defaults/has_default_cert', where)
                if kmodel['default_cert'] is not None and Name.to_bytes(key.default_cert().name) != kmodel['default_cert']:
                    return r.bad('C15/defaults/default_cert', where)
                for cn, data in kmodel['certs'].items():
                    c = key[cn]
                    if Name.to_bytes(c.name) != cn or bytes(c.data) != data or Name.to_bytes(c.key) != kn:
                        return r.bad('C15/views/cert-fields', where)
                if not after_fault and not w.kc.tpm.key_exist(Name.from_bytes(kn)):
                    return r.bad('C15/tpm/private-key-missing-for-listed-key', where)
        if n_default > 1:
            return r.bad('C15/defaults/two-default-identities', where)
    except (sqlite3.Error, OSError, _Injected) as e:
        return r.bad(f'C15/views/raised/{type(e).__name__}', f'{e!r} {where}')
    return None


def check_signer(w, model, default_id, op, r, deleted_keys):
    """get_signer over one argument form; verify the signature under the model-selected key."""
    kc = w.kc
    form = op['form']
    keys = [(idn, kn) for idn, i in sorted(model.items()) for kn in sorted(i['keys'])]
    sel_id = sel_key = sel_cert = None
    args = {}
    try:
        if form in ('digest', 'none'):
            s = kc.get_signer({'digest_sha256': True} if form == 'digest' else {'no_signature': True})
            if form == 'none' and s is not None:
                r.bad('C15/signer/no_signature-returned-signer', '')
            return
        if form == 'deleted-key':
            if not deleted_keys:
                return
            kn = deleted_keys[op['t'] % len(deleted_keys)]
            if any(kn in i['keys'] for i in model.values()):
                return
            fab = Name.from_bytes(kn) + nm(['self', 'v'])
            for a in ({'key': Name.from_bytes(kn)}, {'cert': fab},
                      {'cert': fab, 'key_locator': nm(['locator', '0'])}, {'cert': fab, 'key_locator': nm(['locator', '1'])},
                      {'key': Name.from_bytes(kn), 'key_locator': nm(['locator', '0'])}):
                try:
                    s = kc.get_signer(a)
                except Exception:
                    continue
                if s is not None:
                    r.bad('C15/signer/signer-for-deleted-key', f'args {list(a)}')
            return
        if form == 'default':
            sel_id = default_id
        elif form in ('identity', 'identity-obj'):
            if not model:
                return
            sel_id = sorted(model)[op['t'] % len(model)]
            args['identity'] = Name.from_bytes(sel_id) if form == 'identity' else kc[sel_id]
        elif form in ('key', 'key-obj'):
            if not keys:
                return
            sel_id, sel_key = keys[op['t'] % len(keys)]
            args['key'] = Name.from_bytes(sel_key) if form == 'key' else kc[sel_id][sel_key]
        elif form in ('cert', 'cert-obj'):
            # (selecting by certificate goes by the certificate naming convention <key name>/<issuer>/<version>: certificates
            # imported under other names are selected through their key or identity only)
            certs = [(idn, kn, cn) for idn, kn in keys for cn in sorted(model[idn]['keys'][kn]['certs']) if cn[2:].startswith(kn[2:])]
            if not certs:
                return
            sel_id, sel_key, sel_cert = certs[op['t'] % len(certs)]
            args['cert'] = Name.from_bytes(sel_cert) if form == 'cert' else kc[sel_id][sel_key][sel_cert]
        if sel_key is None:
            if sel_id is None or model[sel_id]['default_key'] is None:
                expect_fail = True
            else:
                sel_key = model[sel_id]['default_key']
                expect_fail = False
        else:
            expect_fail = False
        if not expect_fail and sel_cert is None:
            sel_cert = model[sel_id]['keys'][sel_key]['default_cert']
            if sel_cert is None:
                expect_fail = True
        kl = None
        if op.get('kl') == 'unset':
            args['key_locator'] = None         # present but unset: the same as not given
        elif op.get('kl') is not None:
            kl = nm(['locator', str(op['kl'])])
            args['key_locator'] = kl
        try:
            signer = kc.get_signer(args)
        except Exception as e:
            if not expect_fail:
                r.bad(f'C15/signer/raised/{form}/{type(e).__name__}', f'{e!r}')
            return
        if expect_fail:
            # the selected scope has nothing to sign with.  If the library hands out a signer anyway, it must at least not be one
            # of ANOTHER identity's keys
            if sel_id is not None and form != 'default':
                d = P.strict_data(bytes(make_data(nm(['probe']), MetaInfo(), b'p', signer)))
                for oid, ov in model.items():
                    if oid == sel_id:
                        continue
                    for okn, ok_ in ov['keys'].items():
                        if _verify(d['sig_info']['signature_type'], ok_['bits'], d['signed'], d['sig_value']):
                            r.bad(f'C15/signer/key-of-another-identity/{form}', f'asked for {Name.to_str(Name.from_bytes(sel_id))} (nothing to '
                                  f'sign with), got a signer of {Name.to_str(Name.from_bytes(okn))}')
                            return
            return
        wire = bytes(make_data(nm(['probe']), MetaInfo(), b'p', signer))
        d = P.strict_data(wire)
        bits = model[sel_id]['keys'][sel_key]['bits']
        styp = d['sig_info']['signature_type']
        ok = _verify(styp, bits, d['signed'], d['sig_value'])
        if not ok:
            r.bad(f'C15/signer/wrong-private-key/{form}{"+key_locator" if kl else ""}',
                  f'signature does not verify under the selected key {Name.to_str(Name.from_bytes(sel_key))}')
        want_kl = [bytes(c) for c in kl] if kl else [bytes(c) for c in Name.from_bytes(sel_cert)]
        got_kl = d['sig_info']['key_locator']['name'] if d['sig_info']['key_locator'] else None
        if got_kl != want_kl:
            r.bad(f'C15/signer/key-locator/{form}', f'{got_kl} != {want_kl}')
        elif ok:
            # the application keeps this signer and goes on using it
            w.kept = (getattr(w, 'kept', []) + [(signer, sel_key, bits, want_kl, form)])[-6:]
    except (sqlite3.Error, OSError) as e:
        r.bad(f'C15/signer/storage-error/{type(e).__name__}', repr(e))


def recheck_kept(w, model, r):
    """Signers handed out earlier and still held by the application: as long as their key exists they go on signing with it and
    naming the key locator they were obtained for - whatever signers were asked for since."""
    for signer, sel_key, bits, want_kl, form in getattr(w, 'kept', []):
        if not any(sel_key in i['keys'] for i in model.values()):
            continue
        try:
            d = P.strict_data(bytes(make_data(nm(['probe2']), MetaInfo(), b'p', signer)))
        except Exception as e:
            r.bad(f'C15/signer/kept-signer-raised/{type(e).__name__}', repr(e))
            return
        if not _verify(d['sig_info']['signature_type'], bits, d['signed'], d['sig_value']):
            r.bad(f'C15/signer/kept-signer/wrong-private-key/{form}', Name.to_str(Name.from_bytes(sel_key)))
            return
        got_kl = d['sig_info']['key_locator']['name'] if d['sig_info']['key_locator'] else None
        if got_kl != want_kl:
            r.bad(f'C15/signer/kept-signer/key-locator-changed/{form}', f'{got_kl} != {want_kl} (as obtained)')
            return


def _verify(sig_type, pub, signed, sig):
    from .c14_lvs_validator import _verify as v
    return v(sig_type, pub, signed, sig)


# ---------------- operations ---------------------------------------------------------------------------------------------
MUTATING = ['new_identity', 'touch_identity', 'new_key', 'import_cert', 'set_default_identity', 'set_default_key', 'set_default_key_foreign',
            'set_default_cert', 'del_cert', 'del_key', 'del_identity']


def apply_op(w, model, st_, op):
    """Perform one mutating operation on the library AND on the model.  Raises whatever the library raises.
    Returns a postcondition callable(model_after_raw) -> error text or None (used after fault+repeat)."""
    kc = w.kc
    k = op['op']
    ids = sorted(model)
    keys = [(idn, kn) for idn in ids for kn in sorted(model[idn]['keys'])]
    certs = [(idn, kn, cn) for idn, kn in keys for cn in sorted(model[idn]['keys'][kn]['certs'])]
    if k in ('new_identity', 'touch_identity'):
        name = nm(ID_POOL[op['i'] % len(ID_POOL)])
        nb = Name.to_bytes(name)
        if k == 'new_identity':
            if nb in model:
                try:
                    kc.new_identity(name)
                except KeyError:
                    return 'expected-error', None
                return 'should-have-raised', None
            kc.new_identity(name)
            model[nb] = {'keys': {}, 'default_key': None}
            if st_['default_id'] is None:
                st_['default_id'] = nb
            return 'ok', lambda m, d: None if nb in m else 'identity missing'
        existed = nb in model
        ident = kc.touch_identity(name)
        if not existed:
            kl = [Name.to_bytes(n) for n in ident]
            if len(kl) != 1:
                return f'touch_identity created {len(kl)} keys', None
            key = ident[kl[0]]
            cl = [Name.to_bytes(n) for n in key]
            model[nb] = {'keys': {kl[0]: {'bits': bytes(key.key_bits), 'certs': {c: bytes(key[c].data) for c in cl},
                                          'default_cert': cl[0] if cl else None}}, 'default_key': kl[0]}
        if st_['default_id'] is None:
            st_['default_id'] = nb
        return 'ok', lambda m, d: None if (nb in m and m[nb]['default_key'] is not None and
                                           m[nb]['keys'][m[nb]['default_key']]['default_cert'] is not None) \
            else 'touched identity has no default key / certificate'
    armed_at, w.fault.at = w.fault.at, None        # (the harness's own look-ups are not part of the operation under fault)
    for i_ in ids:
        if i_ not in w.handles:
            try:
                w.handles[i_] = kc[Name.from_bytes(i_)]
            except Exception:
                pass
    w.fault.at = armed_at
    if k == 'new_key' and op.get('via_handle') and w.handles:
        # through an Identity object obtained earlier - possibly before that identity was deleted (and re-created): the owner
        # is the identity of that NAME now, or there is none (KeyError); never some other identity
        hs = sorted(w.handles)
        idn = hs[op['i'] % len(hs)]
        try:
            key = w.handles[idn].new_key(op['type'])
        except KeyError:
            if idn in model:
                raise
            return 'expected-error', None
        if idn not in model:
            return 'key-created-through-handle-of-deleted-identity', None
        kn = Name.to_bytes(key.name)
        cl = [Name.to_bytes(n) for n in key]
        model[idn]['keys'][kn] = {'bits': bytes(key.key_bits), 'certs': {c: bytes(key[c].data) for c in cl},
                                  'default_cert': cl[0] if cl else None}
        if model[idn]['default_key'] is None:
            model[idn]['default_key'] = kn
        st_['keytype'][kn] = op['type']
        return 'ok', None
    if k == 'new_key':
        if not ids:
            return 'skip', None
        idn = ids[op['i'] % len(ids)]
        kw = {}
        if op.get('key_id') is not None:
            # (a text key id is the URI form of the key-id component: escapes and typed forms included)
            kid, kid_comp = _KIDS[op['key_id'] % len(_KIDS)]
            clash = next((kn for kn in model[idn]['keys'] if kn.endswith(kid_comp)), None)
            if clash is not None:
                # the id of an existing key: refused, and the existing key is untouched - its signer still signs with the private
                # key that belongs to its public key
                try:
                    kc.new_key(Name.from_bytes(idn), op['type'], key_id=kid)
                except (KeyError, ValueError, sqlite3.IntegrityError):
                    pass
                else:
                    return 'duplicate-key-id-accepted', None
                if model[idn]['keys'][clash]['default_cert'] is not None:
                    try:
                        signer = kc.get_signer({'key': Name.from_bytes(clash)})
                        d_ = P.strict_data(bytes(make_data(nm(['probe']), MetaInfo(), b'p', signer)))
                        if not _verify(d_['sig_info']['signature_type'], model[idn]['keys'][clash]['bits'], d_['signed'], d_['sig_value']):
                            return 'refused-duplicate-key-id-replaced-the-private-key', None
                    except (sqlite3.Error, OSError):
                        raise
                    except Exception:
                        pass
                return 'expected-error', None
            kw['key_id'] = kid
        key = kc.new_key(Name.from_bytes(idn), op['type'], **kw)
        kn = Name.to_bytes(key.name)
        cl = [Name.to_bytes(n) for n in key]
        model[idn]['keys'][kn] = {'bits': bytes(key.key_bits), 'certs': {c: bytes(key[c].data) for c in cl},
                                  'default_cert': cl[0] if cl else None}
        if model[idn]['default_key'] is None:
            model[idn]['default_key'] = kn
        st_['keytype'][kn] = op['type']
        return 'ok', lambda m, d: None if any(x['default_key'] is not None for x in [m.get(idn, {'default_key': None})]) else 'no default key after new_key'
    if k == 'import_cert':
        if not keys:
            return 'skip', None
        idn, kn = keys[op['t'] % len(keys)]
        signer_key = 'p256-3'
        s = K.PinnedEcdsa(nm(['issuer', 'KEY', 'x', 'self', 'v']), K.KEYS[signer_key]['priv'])
        cname, cdata = derive_cert(Name.from_bytes(kn), f'imp{op["n"]}', model[idn]['keys'][kn]['bits'], s,
                                   datetime.datetime(2024, 1, 1), 3600)
        if op.get('odd'):
            # import_cert(key_name, cert_name, data) takes the two names separately: a certificate published by its issuer under a
            # name of the issuer's choosing - here one that looks like a certificate of ANOTHER key in the store, if there is one
            others = [k2 for _i2, k2 in keys if k2 != kn]
            base = Name.from_bytes(others[op['n'] % len(others)]) if others else nm(['elsewhere', 'KEY', 'k0'])
            cname = base + [Component.from_str(f'for-{hashlib.sha256(bytes(kn)).hexdigest()[:8]}-{op["n"]}'), Component.from_str('v=1')]
            cdata = make_data(cname, MetaInfo(content_type=2, freshness_period=3600000), model[idn]['keys'][kn]['bits'], s)
        cb = Name.to_bytes(cname)
        if cb in model[idn]['keys'][kn]['certs']:
            return 'skip', None
        if op.get('odd') == 'default':
            # ... and it is the certificate its owner wants to be named in signatures
            model[idn]['keys'][kn]['default_cert'] = None
        kc.import_cert(Name.from_bytes(kn), cname, cdata)
        model[idn]['keys'][kn]['certs'][cb] = bytes(cdata)
        if model[idn]['keys'][kn]['default_cert'] is None:
            model[idn]['keys'][kn]['default_cert'] = cb
            if op.get('odd') == 'default':
                kc[idn][kn].set_default_cert(cname)
        return 'ok', lambda m, d: None if cb in m.get(idn, {'keys': {}})['keys'].get(kn, {'certs': {}})['certs'] else 'imported certificate missing'
    if k == 'set_default_identity':
        if not ids:
            return 'skip', None
        idn = ids[op['i'] % len(ids)]
        kc.set_default_identity(Name.from_bytes(idn))
        st_['default_id'] = idn
        return 'ok', lambda m, d: None if d == idn else 'default identity not set'
    if k == 'set_default_key':
        if not keys:
            return 'skip', None
        idn, kn = keys[op['t'] % len(keys)]
        kc[idn].set_default_key(Name.from_bytes(kn))
        model[idn]['default_key'] = kn
        return 'ok', lambda m, d: None if m[idn]['default_key'] == kn else 'default key not set'
    if k == 'set_default_key_foreign':
        # set_default_key() asked for a name that is NOT a key of that identity: a key of another identity, an unknown name, or
        # a key that was deleted.  Refusing (KeyError / ValueError) and ignoring are both fine; the identity's own default, which
        # was not deleted, must stay (the named key's own identity may have made it its default - that is its business)
        if not ids:
            return 'skip', None
        idn = ids[op['i'] % len(ids)]
        others = [(i2, kn) for i2, kn in keys if i2 != idn]
        gone = [kn for kn in st_['deleted_keys'] if not any(kn in model[i2]['keys'] for i2 in ids)]
        kind = op['t'] % 3
        if kind == 0 and others:
            other_id, name_b = others[op['t'] // 3 % len(others)]
        elif kind == 1 and gone:
            other_id, name_b = None, gone[op['t'] // 3 % len(gone)]
        else:
            other_id, name_b = None, Name.to_bytes(Name.from_bytes(idn) + [Component.from_str('KEY'), Component.from_str('nokey')])
        try:
            kc[idn].set_default_key(Name.from_bytes(name_b))
        except (KeyError, ValueError):
            return 'expected-error', None
        if other_id is not None:
            now_raw, _ = w.raw()
            if now_raw.get(other_id, {}).get('default_key') == name_b:
                model[other_id]['default_key'] = name_b
        return 'ok', None
    if k == 'set_default_cert':
        if not certs:
            return 'skip', None
        idn, kn, cn = certs[op['t'] % len(certs)]
        kc[idn][kn].set_default_cert(Name.from_bytes(cn))
        model[idn]['keys'][kn]['default_cert'] = cn
        return 'ok', lambda m, d: None if m[idn]['keys'][kn]['default_cert'] == cn else 'default cert not set'
    if k == 'del_cert':
        if not certs:
            return 'skip', None
        idn, kn, cn = certs[op['t'] % len(certs)]
        if op.get('via_view'):
            kc[idn][kn].del_cert(Name.from_bytes(cn))
        else:
            kc.del_cert(Name.from_bytes(cn))
        del model[idn]['keys'][kn]['certs'][cn]
        if model[idn]['keys'][kn]['default_cert'] == cn:
            model[idn]['keys'][kn]['default_cert'] = None
        return 'ok', lambda m, d: None if cn not in m[idn]['keys'][kn]['certs'] else 'certificate still there'
    if k == 'del_key':
        if not keys:
            return 'skip', None
        idn, kn = keys[op['t'] % len(keys)]
        st_['deleted_keys'].append(kn)
        if op.get('via_view'):
            kc[idn].del_key(Name.from_bytes(kn))
        else:
            kc.del_key(Name.from_bytes(kn))
        del model[idn]['keys'][kn]
        if model[idn]['default_key'] == kn:
            model[idn]['default_key'] = None

        def post(m, d):
            if kn in m.get(idn, {'keys': {}})['keys']:
                return 'key still listed'
            if w.kc.tpm.key_exist(Name.from_bytes(kn)):
                return 'private key still in the TPM'
            return None
        return 'ok', post
    if k == 'del_identity':
        if not ids:
            return 'skip', None
        idn = ids[op['i'] % len(ids)]
        gone = list(model[idn]['keys'])
        st_['deleted_keys'].extend(gone)
        kc.del_identity(Name.from_bytes(idn))
        del model[idn]
        if st_['default_id'] == idn:
            st_['default_id'] = None

        def post(m, d):
            if idn in m:
                return 'identity still listed'
            for kn in gone:
                if w.kc.tpm.key_exist(Name.from_bytes(kn)):
                    return 'private key of a deleted identity still in the TPM'
            return None
        return 'ok', post
    raise ValueError(k)


def run_case(case):
    r = Result()
    w = World(case.get('seed', 0))
    try:
        _run(w, case, r)
    finally:
        w.close()
    return r


def _run(w, case, r):
    model = {}
    st_ = {'default_id': None, 'deleted_keys': [], 'keytype': {}}
    trace = []
    flags = set()
    pending_fault = None
    had_delete = False
    for idx, op in enumerate(case['ops']):
        k = op['op']
        where = f'after step {idx} {k} (trace {"".join(trace)})'
        if k == 'fault':
            pending_fault = op
            continue
        if k == 'reopen':
            w.reopen(True)
            if st_.get('dirty'):
                # a failed commit may have left an open transaction that a clean close discards: durability of changes whose
                # operation reported failure is not demanded - re-synchronise
                raw, raw_default = w.raw()
                model.clear()
                model.update(raw)
                st_['default_id'] = raw_default
                st_['dirty'] = False
            trace.append('R')
            if had_delete:
                flags.add('delete-then-reopen')
        elif k == 'warm_signers':
            # the application obtains MANY distinct signers (one key, n different explicit key locators): more than a small
            # signer cache holds
            keys_now = [(idn, kn) for idn, i in sorted(model.items()) for kn in sorted(i['keys']) if i['keys'][kn]['default_cert']]
            if keys_now and not st_.get('dirty'):
                idn, kn = keys_now[op['t'] % len(keys_now)]
                for j in range(op['n']):
                    try:
                        w.kc.get_signer({'key': Name.from_bytes(kn), 'key_locator': nm(['locator', str(100 + j)])})
                    except Exception as e:
                        r.bad(f'C15/signer/raised/many-locators/{type(e).__name__}', f'{e!r} at locator {j}')
                        return
                flags.add('many-signers')
                trace.append('w')
        elif k == 'get_signer':
            check_signer(w, model, st_['default_id'], op, r, st_['deleted_keys'])
            if not r.violations and not st_.get('dirty'):
                recheck_kept(w, model, r)
            trace.append('g')
            if had_delete:
                flags.add('delete-then-signer')
        elif k in MUTATING:
            if pending_fault is None:
                try:
                    status, _post = apply_op(w, model, st_, op)
                except (sqlite3.Error, OSError, KeyError, ValueError, TypeError, AttributeError) as e:
                    r.bad(f'C15/{k}/raised/{type(e).__name__}', f'{e!r} {where}')
                    return
                if status not in ('ok', 'skip', 'expected-error'):
                    r.bad(f'C15/{k}/{status}', where)
                    return
                if status == 'skip':
                    continue
                trace.append(k[0].upper() if k.startswith('del') else k[0])
                if k.startswith('del'):
                    had_delete = True
            else:
                flags.add('fault')
                st_['dirty'] = True
                if not _fault_episode(w, model, st_, op, pending_fault, r, where):
                    return
                pending_fault = None
                trace.append('F')
                if k.startswith('del'):
                    had_delete = True
        if r.violations:
            return
        check_views(w, model, st_['default_id'], r, where, after_fault=bool(st_.get('dirty')))
        if r.violations:
            return
        for kn in st_['deleted_keys']:
            if not any(kn in i['keys'] for i in model.values()) and w.kc.tpm.key_exist(Name.from_bytes(kn)):
                r.bad('C15/tpm/private-key-of-deleted-key-left', where)
                return
        if not st_.get('dirty'):
            w.raw()
            if w.orphans:
                r.bad('C15/store/rows-left-beneath-deleted-owner', f'{w.orphans[:2]} {where}')
                return
    nontrivial = bool(flags)
    r.key = (''.join(trace)[:30], tuple(sorted(flags))) if nontrivial else None
    r.classes = tuple(sorted(flags)) + (f'len:{min(len(trace) // 5 * 5, 25)}',)


def _fault_episode(w, model, st_, op, fault, r, where):
    """Run `op` with an injected failure at step k (optionally crash+reopen), check invariants, repeat, check postcondition."""
    k = op['op']
    pre_ids = set(model)
    shadow = _copy_model(model)
    shadow_st = {'default_id': st_['default_id'], 'deleted_keys': list(st_['deleted_keys']), 'keytype': dict(st_['keytype'])}
    w.fault.arm(fault['k'])
    err = None
    try:
        status, post = apply_op(w, shadow, shadow_st, op)
    except (sqlite3.OperationalError, OSError) as e:
        err = e
        status, post = 'faulted', None
    except (KeyError, ValueError, TypeError, AttributeError, sqlite3.Error) as e:
        w.fault.disarm()
        r.bad(f'C15/{k}/raised-under-fault/{type(e).__name__}', f'{e!r} {where}')
        return False
    finally:
        fired = w.fault.fired
        w.fault.disarm()
    if status == 'skip':
        return True
    if not fired:
        # the operation has fewer steps than k: it simply ran
        if status not in ('ok', 'expected-error'):
            r.bad(f'C15/{k}/{status}', where)
            return False
        model.clear()
        model.update(shadow)
        st_.update(shadow_st)
        return True
    if err is None:
        r.bad(f'C15/{k}/fault-swallowed', f'storage failure at step {fault["k"]} was not reported {where}')
        return False
    if fault.get('crash'):
        w.reopen(False)
    # invariants on whatever state resulted
    raw, raw_default = w.raw()
    check_views(w, raw, raw_default, r, f'after a failure at step {fault["k"]} of {k} {where}', after_fault=True)
    if r.violations:
        r.violations[0].signature = r.violations[0].signature.replace('C15/', f'C15/after-fault/{k}/', 1)
        return False
    # no signer for a key that is gone from the store
    for kn in st_['deleted_keys'] + shadow_st['deleted_keys']:
        if not any(kn in i['keys'] for i in raw.values()):
            try:
                s = w.kc.get_signer({'key': Name.from_bytes(kn)})
                if s is not None:
                    r.bad(f'C15/after-fault/{k}/signer-for-deleted-key', where)
                    return False
            except Exception:
                pass
    # repeat
    model.clear()
    model.update(raw)
    st_['default_id'] = raw_default
    st_['deleted_keys'] = shadow_st['deleted_keys']
    try:
        status, post = apply_op(w, model, st_, op)
    except KeyError as e:
        if k == 'new_identity' or k.startswith('del') or k.startswith('set_default') or k == 'import_cert':
            # the failed attempt got far enough that there is nothing left to create / delete
            status, post = 'ok', post if False else None
        else:
            r.bad(f'C15/after-fault/{k}/repeat-raised/KeyError', f'{e!r} failure was at step {fault["k"]} {where}')
            return False
    except (sqlite3.IntegrityError,) as e:
        if k in ('import_cert', 'new_key'):
            status, post = 'ok', None
        else:
            r.bad(f'C15/after-fault/{k}/repeat-raised/IntegrityError', f'{e!r} {where}')
            return False
    except (sqlite3.Error, OSError, ValueError, TypeError, AttributeError) as e:
        r.bad(f'C15/after-fault/{k}/repeat-raised/{type(e).__name__}', f'{e!r} failure was at step {fault["k"]} {where}')
        return False
    raw, raw_default = w.raw()
    if k == 'touch_identity' and Name.to_bytes(nm(ID_POOL[op['i'] % len(ID_POOL)])) in pre_ids:
        post = None       # the identity existed before (possibly without keys, which is legitimate): nothing is promised
    if post is not None:
        msg = post(raw, raw_default)
        if msg:
            r.bad(f'C15/after-fault/{k}/repeat-postcondition', f'{msg}; failure was at step {fault["k"]}'
                  f'{" + crash" if fault.get("crash") else ""} {where}')
            return False
    if k in ('del_key', 'del_identity'):
        for kn in shadow_st['deleted_keys']:
            if not any(kn in i['keys'] for i in raw.values()) and w.kc.tpm.key_exist(Name.from_bytes(kn)):
                r.bad(f'C15/after-fault/{k}/private-key-left-behind', f'failure was at step {fault["k"]} {where}')
                return False
    model.clear()
    model.update(raw)
    st_['default_id'] = raw_default
    return True


def _copy_model(m):
    return {i: {'keys': {kn: {'bits': k['bits'], 'certs': dict(k['certs']), 'default_cert': k['default_cert']}
                         for kn, k in v['keys'].items()}, 'default_key': v['default_key']} for i, v in m.items()}


# ---------------- strategies ---------------------------------------------------------------------------------------------------
def _op():
    i = st.integers(0, 7)
    return st.one_of(
        st.fixed_dictionaries({'op': st.just('new_identity'), 'i': i}),
        st.fixed_dictionaries({'op': st.just('touch_identity'), 'i': i}),
        st.fixed_dictionaries({'op': st.just('touch_identity'), 'i': i}),
        st.fixed_dictionaries({'op': st.just('new_key'), 'i': i, 'type': st.sampled_from(['ec', 'ec', 'ec', 'rsa']),
                               'key_id': st.one_of(st.none(), st.integers(0, 3), st.integers(0, 6))}),
        st.fixed_dictionaries({'op': st.just('new_key'), 'i': i, 'type': st.just('ec'), 'key_id': st.none(), 'via_handle': st.just(True)}),
        st.fixed_dictionaries({'op': st.just('import_cert'), 't': i, 'n': st.integers(0, 3),
                               'odd': st.sampled_from([None, None, 'default', 'default', 'plain'])}),
        st.fixed_dictionaries({'op': st.just('set_default_identity'), 'i': i}),
        st.fixed_dictionaries({'op': st.just('set_default_key'), 't': i}),
        st.fixed_dictionaries({'op': st.just('set_default_cert'), 't': i}),
        st.fixed_dictionaries({'op': st.just('set_default_key_foreign'), 'i': i, 't': st.integers(0, 11)}),
        st.fixed_dictionaries({'op': st.just('del_cert'), 't': i, 'via_view': st.booleans()}),
        st.fixed_dictionaries({'op': st.just('del_key'), 't': i, 'via_view': st.booleans()}),
        st.fixed_dictionaries({'op': st.just('del_identity'), 'i': i}),
        st.fixed_dictionaries({'op': st.just('get_signer'), 't': i,
                               'form': st.sampled_from(['default', 'identity', 'identity-obj', 'key', 'key-obj', 'cert', 'cert-obj',
                                                        'digest', 'none', 'deleted-key']),
                               'kl': st.one_of(st.none(), st.none(), st.integers(0, 1), st.just('unset'))}),
        st.fixed_dictionaries({'op': st.just('get_signer'), 't': i, 'form': st.sampled_from(['key', 'cert', 'identity']),
                               'kl': st.integers(0, 1)}),
        st.just({'op': 'reopen'}),
    )


def _template():
    """signer obtained (with an explicit key locator) -> key / identity deleted -> signer requested again -> key re-created"""
    @st.composite
    def t(draw):
        tt = draw(st.integers(0, 3))
        kl = draw(st.integers(0, 1))
        form = draw(st.sampled_from(['key', 'cert', 'identity', 'key-obj']))
        core = [{'op': 'get_signer', 't': tt, 'form': form, 'kl': kl},
                draw(st.sampled_from([{'op': 'del_key', 't': tt, 'via_view': False}, {'op': 'del_key', 't': tt, 'via_view': True},
                                      {'op': 'del_identity', 'i': tt}])),
                {'op': 'get_signer', 't': 0, 'form': 'deleted-key', 'kl': None},
                {'op': 'new_key', 'i': tt, 'type': 'ec', 'key_id': draw(st.integers(0, 1))},
                {'op': 'get_signer', 't': tt, 'form': form, 'kl': kl}]
        pre = [{'op': 'touch_identity', 'i': 0}, {'op': 'new_key', 'i': 0, 'type': 'ec', 'key_id': draw(st.integers(0, 1))}]
        if draw(st.booleans()):
            # ... with many other signers obtained in between
            core.insert(1, {'op': 'warm_signers', 't': draw(st.integers(0, 3)), 'n': draw(st.sampled_from([33, 40, 63, 70, 130]))})
        return pre + draw(st.lists(_op(), max_size=3)) + core + draw(st.lists(_op(), max_size=3))
    return t()


def _case(with_faults):
    ops = [_op()] * 6
    if with_faults:
        ops.append(st.fixed_dictionaries({'op': st.just('fault'), 'k': st.integers(1, 9), 'crash': st.booleans()}))
        ops.append(st.fixed_dictionaries({'op': st.just('fault'), 'k': st.integers(1, 9), 'crash': st.booleans()}))
    return st.fixed_dictionaries({'seed': st.integers(0, 1000),
                                  'ops': st.tuples(st.lists(st.sampled_from([{'op': 'touch_identity', 'i': 0}, {'op': 'touch_identity', 'i': 1},
                                                                             {'op': 'new_identity', 'i': 2}]), min_size=1, max_size=2),
                                                   st.lists(st.one_of(*ops), min_size=2, max_size=22)).map(lambda t: t[0] + t[1])
                                  if with_faults else
                                  st.one_of(st.tuples(st.lists(st.sampled_from([{'op': 'touch_identity', 'i': 0}, {'op': 'touch_identity', 'i': 1},
                                                                                {'op': 'new_identity', 'i': 2}]), min_size=1, max_size=2),
                                                      st.lists(st.one_of(*ops), min_size=2, max_size=22)).map(lambda t: t[0] + t[1]),
                                            _template())})


def _fault_enum(tier):
    """Every failing step index of every operation kind, on a fixed populated pre-state, with and without crash."""
    pre = [{'op': 'touch_identity', 'i': 0}, {'op': 'touch_identity', 'i': 1}, {'op': 'new_key', 'i': 0, 'type': 'ec', 'key_id': 1},
           {'op': 'import_cert', 't': 0, 'n': 0}]
    targets = [{'op': 'new_identity', 'i': 2}, {'op': 'touch_identity', 'i': 3}, {'op': 'new_key', 'i': 0, 'type': 'ec', 'key_id': None},
               {'op': 'new_key', 'i': 1, 'type': 'rsa', 'key_id': 2}, {'op': 'import_cert', 't': 1, 'n': 1},
               {'op': 'set_default_identity', 'i': 1}, {'op': 'set_default_key', 't': 1}, {'op': 'set_default_cert', 't': 1},
               {'op': 'del_cert', 't': 0, 'via_view': False}, {'op': 'del_key', 't': 0, 'via_view': False},
               {'op': 'del_key', 't': 1, 'via_view': True}, {'op': 'del_identity', 'i': 0}]
    for tgt in targets:
        for k in range(1, 25 if tier == 'thorough' else 16):
            for crash in (False, True):
                yield {'seed': k, 'ops': pre + [{'op': 'fault', 'k': k, 'crash': crash}, tgt,
                                                 {'op': 'get_signer', 't': 0, 'form': 'default', 'kl': None},
                                                 {'op': 'get_signer', 't': 0, 'form': 'deleted-key', 'kl': None}, {'op': 'reopen'}]}


def run_big(case):
    """A scope with MORE entries than any page or batch size (101..260 keys under one identity, or certificates under one key)
    is deleted: everything beneath it goes, private keys included; a neighbour identity is untouched; also after a reopen."""
    r = Result()
    w = World(case.get('seed', 0))
    try:
        kc = w.kc
        big, small = nm(['big']), nm(['small'])
        kc.touch_identity(small)
        ident = kc.touch_identity(big)
        n = case['n']
        for i in range(n - 1):
            kc.new_key(big, 'ec', key_id=f'k{i}')
        raw, _d = w.raw()
        names = sorted(raw[Name.to_bytes(big)]['keys'])
        if len(names) != n or len(kc[big]) != n or len(list(kc[big])) != n:
            r.bad('C15/big/views-disagree', f'{len(names)} rows, len() {len(kc[big])}, iteration {len(list(kc[big]))}, expected {n}')
            return r
        certs = {kn: sorted(raw[Name.to_bytes(big)]['keys'][kn]['certs']) for kn in names}
        if case['how'] == 'del_identity':
            kc.del_identity(big)
        else:
            for key_name in list(kc[big]):
                kc.del_key(key_name)
        if case.get('reopen'):
            w.reopen(True)
            kc = w.kc
        raw, _d = w.raw()
        left = raw.get(Name.to_bytes(big), {'keys': {}})['keys']
        if left:
            r.bad(f'C15/big/{case["how"]}/keys-left-behind', f'{len(left)} of {n} keys still listed')
        if w.orphans:
            r.bad(f'C15/big/{case["how"]}/orphan-rows', str(w.orphans[:2]))
        stale = [kn for kn in names if kc.tpm.key_exist(Name.from_bytes(kn))]
        if stale:
            r.bad(f'C15/big/{case["how"]}/private-keys-left-behind', f'{len(stale)} of {n}')
        for kn in names[::max(1, n // 7)] + names[-2:]:
            for a in ({'key': Name.from_bytes(kn)}, {'cert': Name.from_bytes(certs[kn][0])} if certs[kn] else None):
                if a is None:
                    continue
                try:
                    if kc.get_signer(a) is not None:
                        r.bad(f'C15/big/{case["how"]}/signer-for-deleted-key', f'args {list(a)}')
                        break
                except Exception:
                    pass
        if Name.to_bytes(small) not in raw or len(raw[Name.to_bytes(small)]['keys']) != 1:
            r.bad(f'C15/big/{case["how"]}/neighbour-identity-damaged', '')
    except Exception as e:
        r.bad(f'C15/big/raised/{type(e).__name__}', repr(e)[:200])
    finally:
        w.close()
    r.key = (case['n'] // 50, case['how'], bool(case.get('reopen')))
    r.classes = (f'keys:{case["n"] // 50 * 50}+', case['how'])
    return r


def _big_cases(tier):
    for n in ((101, 130) if tier == 'quick' else (100, 101, 102, 130, 201, 260)):
        for how in ('del_identity', 'del_keys_while_iterating'):
            for reopen in (False, True):
                yield {'n': n, 'how': how, 'reopen': reopen, 'seed': n}


SUBCHECKS = {
    'big-scopes': SubCheck(run_big, enumerate=_big_cases, exhaustive={'quick': False, 'thorough': False},
                           note='an identity with 101..260 keys deleted (del_identity, or key by key while iterating its view)'),
    'fault-steps': SubCheck(run_case, enumerate=_fault_enum, exhaustive={'quick': True, 'thorough': True},
                            note='every failing step index (1..15 / 1..24) of 12 operation kinds on a populated store, with and without crash'),
    'histories': SubCheck(run_case, strategy=lambda tier: _case(False), examples={'quick': 600, 'thorough': 8000}),
    'histories-faults': SubCheck(run_case, strategy=lambda tier: _case(True), examples={'quick': 600, 'thorough': 8000}),
}
