"""C07 - packet decoders accept exactly the well-formed packets (differential vs a strict reference reader)."""
import contextlib
import struct

from hypothesis import strategies as st

from ndn.app_support.security_v2 import parse_certificate
from ndn.encoding import parse_lp_packet, parse_network_nack, DecodeError, Name, parse_data, parse_interest, parse_lp_packet_v2

from .. import keys as K
from .. import mut as M
from .. import pkt as P
from .. import strats as S
from ..core import Result, SubCheck
from ..linebudget import BudgetExceeded, LineBudget
from ..refs import tlv as T
from ..sim import net

PROPERTY_ID = 'C07'
RULE = ('Inputs for the decoders parse_interest, parse_data, parse_lp_packet_v2, parse_certificate, Name.from_bytes, plus the legacy '
        'parse_lp_packet / parse_network_nack and all three link-layer decoders in their with_tl=False form on the bare value: uniformly '
        'random bytes, random bytes behind a correct outer type/length, grammar-generated packets from the spec field tables (every '
        'optional-field subset, unknown non-critical elements sprinkled in, nested SignatureInfo/KeyLocator/ValidityPeriod/'
        'descriptions/forwarding hints) encoded by the independent encoder, and 1..2 byte-level or TLV-structural mutations of those; '
        'thorough tier also enumerates every single-edit mutation of fixed seed packets; sub-check sequences decodes 2..8 inputs one '
        'after the other in one process and then fixed canary packets (a decoder is a function of the bytes alone). Oracle: (1) exception class in the '
        'documented decoding errors; (2) library accepts => strict reader accepts (name present, nesting, integer widths, critical '
        'fields once and in order); (3) canonical well-formed inputs must be accepted; (4) both accept => every extracted field '
        'equal; (5) executed-line count <= 5000 + 60*len(input) (sys.monitoring, no wall clock). Non-trivial = outer framing valid '
        'AND the input is a structural/length/width edit or grammar-generated; distinct key = (decoder, family, mutation kinds, verdict pair).')
ASSUMPTIONS = [
    'documented decoding errors = DecodeError, IndexError, ValueError (incl. UnicodeDecodeError), struct.error, TypeError '
    '(the union of the decoder docstrings and what the library\'s own callers treat as a decoding failure)',
    'critical = odd type number, as the library documents; non-minimal type/length encodings are not rejected by the reference',
    'NonNegativeInteger widths 1/2/4/8 are legal for every integer field (fixed widths of Nonce/HopLimit are not imposed)',
    'LpPacket header fields are read in ascending type order with Fragment last (NDNLPv2); fragmented packets are rejected by both',
]

ALLOWED_EXC = (DecodeError, IndexError, ValueError, struct.error, TypeError)


# ---------------- library side: normalise results into comparable dicts -----------------------------------------
def _b(x):
    return None if x is None else bytes(x)


def _name(n):
    if n is None:
        return None
    if isinstance(n, str) or not isinstance(n, list):
        return 'NOT-A-COMPONENT-LIST:' + repr(n)[:40]
    return [bytes(c) for c in n]


def _siginfo(si):
    if si is None:
        return None
    kl = si.key_locator
    return {'signature_type': si.signature_type,
            'key_locator': None if kl is None else {'name': _name(kl.name), 'digest': _b(kl.key_digest)},
            'nonce': si.signature_nonce, 'time': si.signature_time, 'seq': si.signature_seq_num}


def _scribble_result(name, params):
    """What a decoder returns belongs to the caller, who may change it: a later decode must not see those changes."""
    try:
        if isinstance(name, list):
            name.append(b'\x08\x07scribble')
        for attr, val in (('content_type', 99), ('freshness_period', 987654), ('final_block_id', b'\x08\x01!'),
                          ('nonce', 0xDEADBEEF), ('lifetime', 1), ('hop_limit', 1), ('can_be_prefix', True), ('must_be_fresh', True)):
            if hasattr(params, attr):
                setattr(params, attr, val)
        fh = getattr(params, 'forwarding_hint', None)
        if isinstance(fh, list):
            fh.append([b'\x08\x04hint'])
    except Exception:
        pass


def lib_data(w):
    name, meta, content, sig = parse_data(w)
    try:
        return _lib_data(name, meta, content, sig)
    finally:
        _scribble_result(name, meta)


def _lib_data(name, meta, content, sig):
    return {'name': _name(name),
            'meta': {'content_type': meta.content_type, 'freshness_period': meta.freshness_period,
                     'final_block_id': _b(meta.final_block_id)},
            'content': _b(content), 'sig_info': _siginfo(sig.signature_info), 'sig_value': _b(sig.signature_value_buf),
            'signed': b''.join(bytes(x) for x in sig.signature_covered_part) if sig.signature_value_buf is not None else None}


def lib_interest(w):
    name, p, app, sig = parse_interest(w)
    try:
        return _lib_interest(name, p, app, sig)
    finally:
        _scribble_result(name, p)


def _lib_interest(name, p, app, sig):
    return {'name': _name(name), 'can_be_prefix': bool(p.can_be_prefix), 'must_be_fresh': bool(p.must_be_fresh),
            'nonce': p.nonce, 'lifetime': p.lifetime, 'hop_limit': p.hop_limit,
            'forwarding_hint': [_name(n) for n in p.forwarding_hint] or None, 'app_param': _b(app),
            'sig_info': _siginfo(sig.signature_info), 'sig_value': _b(sig.signature_value_buf),
            'signed': b''.join(bytes(x) for x in sig.signature_covered_part) if sig.signature_value_buf is not None else None,
            'digest_covered': b''.join(bytes(x) for x in sig.digest_covered_part) if app is not None else None,
            'digest_comp': _b(sig.digest_value_buf)}


def lib_lp(w, with_tl=True):
    v = parse_lp_packet_v2(w, with_tl)
    return {'nack': True if v.nack is not None else None, 'nack_reason': None if v.nack is None else v.nack.nack_reason,
            'non_discovery': bool(v.non_discovery),
            'cache_policy_type': None if v.cache_policy is None else v.cache_policy.cache_policy_type,
            'frag_index': v.frag_index, 'frag_count': v.frag_count, 'incoming_face_id': v.incoming_face_id,
            'next_hop_face_id': v.next_hop_face_id, 'congestion_mark': v.congestion_mark, 'pit_token': _b(v.pit_token),
            'ack': _b(v.ack), 'tx_sequence': _b(v.tx_sequence), 'prefix_announcement': _b(v.prefix_announcement),
            'fragment': _b(v.fragment)}


def lib_lp_legacy(w, with_tl=True):
    reason, frag = parse_lp_packet(w, with_tl)
    return {'reason': reason, 'fragment': _b(frag)}


def lib_lp_nack(w, with_tl=True):
    reason, frag = parse_network_nack(w, with_tl)
    return {'reason': reason, 'fragment': _b(frag)}


def lib_cert(w):
    c = parse_certificate(w)
    if 'name' not in c.__dict__:
        nm = 'NOT-A-COMPONENT-LIST:absent'
    else:
        nm = _name(c.name)
    si = c.signature_info
    mi = c.meta_info
    out = {'name': nm,
           'meta': None if mi is None else {'content_type': mi.content_type, 'freshness_period': mi.freshness_period,
                                            'final_block_id': _b(mi.final_block_id)},
           'content': _b(c.content), 'sig_info': _siginfo(si), 'sig_value': _b(c.signature_value),
           'validity': None, 'descriptions': None}
    if si is not None:
        if si.validity_period is not None:
            out['validity'] = (_b(si.validity_period.not_before), _b(si.validity_period.not_after))
        if si.additional_description is not None:
            out['descriptions'] = [(_b(e.description_key), _b(e.description_value))
                                   for e in si.additional_description.description_entry]
    return out


def lib_name(w):
    return _name(Name.from_bytes(w))


def ref_data(w):
    d = P.strict_data(w)
    d = {k: v for k, v in d.items() if not k.startswith('_')}
    d['meta'] = d['meta'] or {'content_type': 0, 'freshness_period': None, 'final_block_id': None}
    return d


def ref_interest(w):
    d = P.strict_interest(w)
    ndc = d.get('n_digest_comps', 2)
    d = {k: v for k, v in d.items() if not k.startswith('_') and k != 'n_digest_comps'}
    if d['app_param'] is None:
        d['digest_covered'] = None
    if not d['forwarding_hint']:
        d['forwarding_hint'] = None
    d['_ndc'] = ndc
    return d


def ref_lp(w):
    d = P.strict_lp(w)
    d.pop('cache_policy', None)
    return d


def ref_lp_legacy(w):
    d = P.strict_lp(w)
    return {'reason': None if not d['nack'] else (d['nack_reason'] if d['nack_reason'] is not None else 0), 'fragment': d['fragment']}


def ref_lp_nack(w):
    d = P.strict_lp(w, allow_frag=True)
    return {'reason': d['nack_reason'], 'fragment': d['fragment']} if d['nack'] else {'reason': None, 'fragment': None}


def _value_of(ref):
    """decoders called with with_tl=False get only the Value: strict reading = strict reading of 0x64 <len> Value"""
    return lambda w: ref(T.enc_tlv(0x64, bytes(w)))


def ref_cert(w):
    d = P.strict_cert(w)
    return {k: d[k] for k in ('name', 'meta', 'content', 'sig_info', 'sig_value', 'validity', 'descriptions')}


DECODERS = {
    'data': (lib_data, ref_data), 'interest': (lib_interest, ref_interest), 'lp': (lib_lp, ref_lp),
    'cert': (lib_cert, ref_cert), 'name': (lib_name, P.strict_name_wire),
    'lp-legacy': (lib_lp_legacy, ref_lp_legacy), 'lp-nack': (lib_lp_nack, ref_lp_nack),
    'lp-value': (lambda w: lib_lp(w, False), _value_of(ref_lp)),
    'lp-legacy-value': (lambda w: lib_lp_legacy(w, False), _value_of(ref_lp_legacy)),
    'lp-nack-value': (lambda w: lib_lp_nack(w, False), _value_of(ref_lp_nack)),
}
LP_FAMILY = ('lp-legacy', 'lp-nack', 'lp-value', 'lp-legacy-value', 'lp-nack-value')


def _cmp(dec, a, b):
    """-> first differing field or None.  a = library, b = reference."""
    if dec == 'name':
        return None if a == b else 'name'
    for k in b:
        x, y = a.get(k), b[k]
        if k == 'meta' and dec == 'data':
            # parse_data returns MetaInfo() (content_type 0) when MetaInfo is absent; None and 0 are the same value (BLOB)
            if x is not None and y is not None:
                x = dict(x, content_type=x['content_type'] or 0)
                y = dict(y, content_type=y['content_type'] or 0)
        if k == 'signed' and (x is None or y is None):
            continue
        if k.startswith('_'):
            continue
        if k == 'digest_comp' and b.get('_ndc', 2) > 1:
            continue   # C02's business (which of several digest components counts)
        if x != y:
            return k
    return None


# ---------------- input construction ---------------------------------------------------------------------------------
def _sprinkle(wire, spec):
    """Insert unknown NON-critical elements (even types >= 32 not used by the formats) at drawn tree positions."""
    for pos, typ, n in spec:
        w2 = M.apply(wire, {'k': 'insert-noncrit', 'pos': pos, 'val': typ, 'n': n, 'region': 'any'})
        if w2 is not None:
            wire = w2
    return wire


def gen_packet(g):
    """Grammar-generated well-formed packet by the independent encoder.  g: JSON spec."""
    kind = g['kind']
    if kind in ('data', 'interest'):
        exp = P.Expected(g['case'])
        payload = P.payload_bytes(g['case']['payload'], exp.overhead)
        sig = bytes.fromhex(g['sig']) if exp.signed else b''
        wire, _sp, _fin = exp.assemble(payload, sig)
    elif kind == 'lp':
        frag = None if g['frag'] is None else bytes.fromhex(g['frag'])
        from .c10_lp import _extra
        wire = net.lp_wrap(frag, nack_reason=g['reason'], nack=g['nack'], pit_token=None if g['token'] is None else bytes.fromhex(g['token']),
                           extra=_extra(g['extra']), frag_index=g.get('fragidx'), frag_count=g.get('fragcnt'))
    elif kind == 'cert':
        body = S.name_wire(g['name'])
        body += T.enc_tlv(0x14, T.enc_tlv(0x18, b'\x02') + T.enc_tlv(0x19, T.enc_nni(g['fresh'])))
        body += T.enc_tlv(0x15, bytes.fromhex(g['content']))
        si = T.enc_tlv(0x1b, bytes([g['sigtype']]))
        if g['kl'] is not None:
            si += T.enc_tlv(0x1c, S.name_wire(g['kl']))
        if g['validity'] is not None:
            si += T.enc_tlv(0xFD, T.enc_tlv(0xFE, g['validity'][0].encode()) + T.enc_tlv(0xFF, g['validity'][1].encode()))
        if g['desc'] is not None:
            si += T.enc_tlv(0x0102, b''.join(T.enc_tlv(0x0200, T.enc_tlv(0x0201, k.encode()) + T.enc_tlv(0x0202, v.encode()))
                                             for k, v in g['desc']))
        body += T.enc_tlv(0x16, si) + T.enc_tlv(0x17, bytes.fromhex(g['sig']))
        wire = T.enc_tlv(6, body)
    else:  # name
        wire = S.name_wire(g['name']) + bytes.fromhex(g.get('trail', ''))
    return _sprinkle(wire, g.get('sprinkle', []))


@st.composite
def _grammar(draw):
    kind = draw(st.sampled_from(['data', 'interest', 'lp', 'cert', 'name', 'data', 'interest']))
    sprinkle = draw(st.lists(st.tuples(st.integers(0, 1 << 16), st.integers(0, 3), st.integers(1, 4)).map(list), max_size=3))
    if kind in ('data', 'interest'):
        kinds = ['none', 'digest', 'hmac', 'synthetic', 'ecdsa']
        case = draw(P.data_case(kinds, 600) if kind == 'data' else P.interest_case(kinds, 600))
        return {'kind': kind, 'case': case, 'sig': draw(st.binary(max_size=72)).hex(), 'sprinkle': sprinkle}
    if kind == 'lp':
        from .c10_lp import _envspec
        inner = draw(st.one_of(st.none(), st.binary(max_size=30), st.just(net.data_wire([net.comp('a')], b'c')),
                               st.just(net.interest_wire([net.comp('a')], nonce=1))))
        nack = draw(st.booleans())
        return {'kind': 'lp', 'frag': None if inner is None else inner.hex(), 'nack': nack,
                'reason': draw(st.one_of(st.none(), st.sampled_from([0, 50, 255, 256, 2 ** 32, 2 ** 64 - 1]))) if nack else None,
                'token': draw(st.one_of(st.none(), st.binary(max_size=12).map(bytes.hex))), 'extra': draw(_envspec()),
                # fragmentation headers (any value, 0 included): the decoders refuse fragmented packets
                'fragidx': draw(st.sampled_from([None] * 8 + [0, 0, 1, 2])), 'fragcnt': draw(st.sampled_from([None] * 8 + [0, 1, 2, 3])),
                'sprinkle': sprinkle}
    if kind == 'cert':
        txt = st.text(alphabet='0123456789T', min_size=0, max_size=15)
        return {'kind': 'cert', 'name': draw(S.name(1, 5, 12)), 'fresh': draw(st.integers(0, 2 ** 33)),
                'content': draw(st.binary(max_size=60)).hex(), 'sigtype': draw(st.sampled_from([1, 3, 5, 0])),
                'kl': draw(st.one_of(st.none(), S.name(0, 4, 10))),
                'validity': draw(st.one_of(st.none(), st.tuples(txt, txt).map(list))),
                'desc': draw(st.one_of(st.none(), st.lists(st.tuples(st.text(max_size=5), st.text(max_size=5)).map(list), max_size=3))),
                'sig': draw(st.binary(max_size=72)).hex(), 'sprinkle': sprinkle}
    return {'kind': 'name', 'name': draw(S.name(0, 8)), 'trail': draw(st.binary(max_size=3)).hex(), 'sprinkle': []}


def _input_case():
    rnd = st.fixed_dictionaries({'fam': st.just('random'), 'dec': st.sampled_from(sorted(DECODERS)),
                                 'hex': st.binary(max_size=300).map(bytes.hex)})
    rnd_framed = st.fixed_dictionaries({'fam': st.just('random-framed'), 'dec': st.sampled_from(sorted(DECODERS)),
                                        'hex': st.binary(max_size=200).map(bytes.hex)})
    gram = st.fixed_dictionaries({'fam': st.just('grammar'), 'g': _grammar()})
    mutated = st.fixed_dictionaries({'fam': st.just('mutated'), 'g': _grammar(),
                                     'muts': st.lists(M.mutation_spec(), min_size=1, max_size=2)})
    wide = st.fixed_dictionaries({'fam': st.just('mutated'), 'g': _grammar(),
                                  'muts': st.lists(M.mutation_spec(['num-wide']), min_size=1, max_size=1)})
    return st.one_of(rnd, rnd_framed, gram, gram, mutated, mutated, mutated, mutated, wide)


OUTER = {'data': 6, 'interest': 5, 'lp': 0x64, 'cert': 6, 'name': 7, 'lp-legacy': 0x64, 'lp-nack': 0x64,
         'lp-value': 0x50, 'lp-legacy-value': 0x50, 'lp-nack-value': 0x50}


def build(case):
    fam = case['fam']
    if fam == 'random':
        return case['dec'], bytes.fromhex(case['hex'])
    if fam == 'random-framed':
        return case['dec'], T.enc_tlv(OUTER[case['dec']], bytes.fromhex(case['hex']))
    dec = case['g']['kind']
    w = gen_packet(case['g'])
    if fam == 'mutated':
        for m in case['muts']:
            w2 = M.apply(w, m)
            if w2 is not None:
                w = w2
    return dec, w


def run_case(case):
    r = Result()
    dec, w = build(case)
    # a Data wire is also a legitimate input of the certificate decoder and vice versa
    targets = [dec] + (['cert'] if dec == 'data' else ['data'] if dec == 'cert' else [])
    fam = case['fam']
    keyparts = []
    for d in targets:
        keyparts.append(_one(r, d, w, fam, case))
    if dec == 'lp':
        # the sibling link-layer decoders on the same bytes, and the with_tl=False forms on the bare Value
        try:
            el = T.read_tlv(w, 0, len(w))
            value = w[el[2]:el[3]] if el[3] == len(w) else w
        except T.Malformed:
            value = w
        for d in LP_FAMILY:
            _one(r, d, value if d.endswith('-value') else w, fam if value is not w or not d.endswith('-value') else 'random', case)
    framed = True
    try:
        T.single(w) if dec != 'name' else T.read_tlv(w, 0, len(w))
    except T.Malformed:
        framed = False
    nontrivial = framed and fam in ('grammar', 'mutated', 'random-framed')
    r.key = (fam, tuple(keyparts), tuple(m['k'] for m in case.get('muts', []))) if nontrivial else None
    r.classes = (f'dec:{dec}', f'fam:{fam}', 'framed' if framed else 'unframed') + tuple(f'{d}:{k}' for d, k in zip(targets, keyparts))
    return r


def run_sequence(case):
    """Several inputs decoded one after the other in one process: every verdict and field must still be the strict reading of THAT
    input alone (a decoder is a function of the bytes, whatever was decoded - or rejected - before), and the first input decoded again
    at the end gives the same result."""
    r = Result()
    keys = []
    rejected_before_accept = False
    seen_reject = False
    for i, sub in enumerate(case['inputs'] + case['inputs'][:1] + _canaries()):
        one = run_case(sub)
        for v in one.violations:
            r.bad(v.signature.replace('C07/', 'C07/seq/', 1), f'[input {i} of the sequence] {v.detail}')
        if any(not v.signature.endswith('/overrun-clamped-by-slicing') for v in r.violations):
            return r        # (the one known finding does not end the sequence)
        acc = any(c.endswith(':both-accept') for c in one.classes)
        rej = any(c.endswith(':both-reject') for c in one.classes)
        if acc and seen_reject:
            rejected_before_accept = True
        seen_reject = seen_reject or rej
        keys.append(one.key)
    r.key = tuple(map(str, keys)) if rejected_before_accept and any(k is not None for k in keys) else None
    r.classes = ('sequence', 'accept-after-reject' if rejected_before_accept else 'no-accept-after-reject')
    return r


def run_threads(case):
    """Two or three threads decode their own (fixed) packets at the same time, over and over: a decoder is a function of the bytes it
    is given, also when another thread is in the middle of decoding something else."""
    import sys
    import threading
    r = Result()
    try:
        built = [build(sub) for sub in case['inputs']]
    except Exception:
        r.discarded = True
        return r
    results = [Result() for _ in built]
    errors = []

    def work(i):
        dec, w = built[i]
        try:
            for _ in range(case['n']):
                _one(results[i], dec, w, case['inputs'][i]['fam'], case['inputs'][i])
                if any(not v.signature.endswith('/overrun-clamped-by-slicing') for v in results[i].violations):
                    break
        except Exception as e:      # noqa
            errors.append(f'{type(e).__name__}: {e!r}'[:200])
    old = sys.getswitchinterval()
    sys.setswitchinterval(1e-6)
    _THREADS[0] = True
    try:
        ths = [threading.Thread(target=work, args=(i,)) for i in range(len(built))]
        for t in ths:
            t.start()
        for t in ths:
            t.join()
    finally:
        sys.setswitchinterval(old)
        _THREADS[0] = False
    for e in errors:
        r.bad('C07/threads/decoder-or-comparison-raised', e)
    for res in results:
        for v in res.violations:
            if not v.signature.endswith('/overrun-clamped-by-slicing'):
                r.bad(v.signature.replace('C07/', 'C07/threads/', 1), '[while other threads were decoding] ' + v.detail)
    r.key = tuple(b[0] for b in built)
    r.classes = ('threads', f'threads:{len(built)}')
    return r


def _threads_case():
    seeds = list(_seed_specs())
    one = st.sampled_from(seeds).map(lambda g: {'fam': 'grammar', 'g': g})
    return st.fixed_dictionaries({'inputs': st.lists(one, min_size=2, max_size=3), 'n': st.sampled_from([60, 150])})


def _canaries():
    """Fixed well-formed packets decoded at the end of every sequence: whatever came before, they read as they always do."""
    plain = {'kind': 'interest', 'case': {'kind': 'interest', 'name': [[8, '706c61696e'], [8, '78']], 'name_rep': 0, 'digest_pos': None,
                                         'params': {'can_be_prefix': False, 'must_be_fresh': False, 'nonce': 9, 'lifetime': None,
                                                    'hop_limit': None, 'forwarding_hint': []},
                                         'payload': None, 'signer': {'kind': 'none'}, 'sig_time': 0, 'sig_nonce': 1}, 'sig': ''}
    unsigned = {'kind': 'data', 'case': {'kind': 'data', 'name': [[8, '75']], 'name_rep': 0,
                                        'meta': None, 'payload': None, 'signer': {'kind': 'none'}}, 'sig': ''}
    return [{'fam': 'grammar', 'g': g} for g in [plain, unsigned] + list(_seed_specs())]


def _sequence_case():
    def same_kind(kind):
        def fix(c):
            return c if c['fam'] in ('random', 'random-framed') or c['g']['kind'] == kind else None
        return fix
    any_seq = st.lists(_input_case(), min_size=2, max_size=4)
    # sequences through ONE decoder (state left behind by a rejected packet can only matter to the same decoder)
    one_dec = st.sampled_from(['data', 'interest', 'lp', 'cert']).flatmap(
        lambda kind: st.lists(_input_case().map(same_kind(kind)), min_size=3, max_size=8).map(lambda xs: [x for x in xs if x is not None]))
    return st.one_of(any_seq, one_dec, one_dec).filter(lambda xs: len(xs) >= 2).map(lambda xs: {'inputs': xs})


_THREADS = [False]


def _one(r, dec, w, fam, case):
    lib_fn, ref_fn = DECODERS[dec]
    budget = 5000 + 60 * len(w)
    lib_out = lib_err = None
    try:
        # (the line budget rests on sys.monitoring, which is per interpreter: not used while several threads decode)
        with (contextlib.nullcontext() if _THREADS[0] else LineBudget(budget)):
            lib_out = lib_fn(w)
    except BudgetExceeded as e:
        r.bad(f'C07/{dec}/line-budget-exceeded', f'{e} for {len(w)} input bytes: {w.hex()[:120]}')
        return 'budget'
    except ALLOWED_EXC as e:
        lib_err = e
    except Exception as e:  # noqa
        r.bad(f'C07/{dec}/undocumented-exception/{type(e).__name__}', f'{e!r} input={w.hex()[:160]}')
        return 'exc'
    ref_out = ref_err = None
    try:
        ref_out = ref_fn(w)
    except T.Malformed as e:
        ref_err = e
    if lib_err is None and ref_err is not None:
        # Attribute precisely: is this exactly the known 'value clamped by slicing' behaviour of TlvModel.parse?
        sig = f'C07/{dec}/accepts-malformed/{_why(ref_err)}'
        if dec != 'name':
            try:
                with T.clamped():
                    clamped_out = ref_fn(w)
                if _cmp(dec, lib_out, clamped_out) is None:
                    sig = f'C07/{dec}/accepts-malformed/overrun-clamped-by-slicing'
            except T.Malformed:
                pass
        r.bad(sig, f'strict reader: {ref_err}; input={w.hex()[:200]}')
        return 'lib-only'
    if lib_err is not None and ref_err is None:
        # only a demand for the canonical well-formed class
        if fam == 'grammar':
            r.bad(f'C07/{dec}/rejects-wellformed/{type(lib_err).__name__}', f'{lib_err!r}; input={w.hex()[:200]}')
        return 'ref-only'
    if lib_err is not None:
        return 'both-reject'
    diff = _cmp(dec, lib_out, ref_out)
    if diff is not None:
        a = lib_out.get(diff) if isinstance(lib_out, dict) else lib_out
        b = ref_out.get(diff) if isinstance(ref_out, dict) else ref_out
        r.bad(f'C07/{dec}/field-differs/{diff}', f'library {str(a)[:120]} vs strict {str(b)[:120]}; input={w.hex()[:200]}')
    return 'both-accept'


def _why(e):
    s = str(e)
    for k in ('overruns', 'truncated', 'width', 'critical', 'no name', 'past end', 'component type', 'not a name', 'trailing'):
        if k in s:
            return k.replace(' ', '-')
    return 'other'


# ---------------- thorough: every single-edit mutation of fixed seeds ------------------------------------------------
def _seed_specs():
    kl = [[8, '6b'], [8, '4b4559']]
    yield {'kind': 'data', 'case': {'kind': 'data', 'name': [[8, '61'], [50, '01']], 'name_rep': 0,
                                   'meta': {'content_type': 0, 'freshness_period': 1000, 'final_block_id': '320101'},
                                   'payload': {'hex': '6869'}, 'signer': {'kind': 'hmac', 'kl': kl, 'hkey': '01'}}, 'sig': '11' * 32}
    yield {'kind': 'interest', 'case': {'kind': 'interest', 'name': [[8, '61'], [8, '62']], 'name_rep': 0, 'digest_pos': None,
                                       'params': {'can_be_prefix': True, 'must_be_fresh': True, 'nonce': 7, 'lifetime': 4000,
                                                  'hop_limit': 3, 'forwarding_hint': [[[8, '68']]]},
                                       'payload': {'hex': '7061'}, 'signer': {'kind': 'digest'}, 'sig_time': 5, 'sig_nonce': 6},
           'sig': '22' * 32}
    yield {'kind': 'lp', 'frag': net.data_wire([net.comp('a')], b'c').hex(), 'nack': True, 'reason': 150, 'token': '0102',
           'extra': [[0x032C, 5], [0x0340, 1], [0x0334, 0]]}
    yield {'kind': 'cert', 'name': [[8, '61'], [8, '4b4559'], [8, '01'], [8, '73656c66'], [54, '01']], 'fresh': 3600000,
           'content': '3059', 'sigtype': 3, 'kl': kl, 'validity': ['19700101T000000', '20400101T000000'],
           'desc': [['k', 'v']], 'sig': '33' * 8}
    yield {'kind': 'name', 'name': [[8, '61'], [1, '00' * 32], [32, '6b']], 'trail': ''}


def _single_edits(tier):
    for g in _seed_specs():
        w = gen_packet(g)
        n_paths = len(M.paths(M.to_tree(w))) if g['kind'] != 'name' or True else 0
        if tier == 'quick':
            offs = range(0, len(w), 5)
            vals = [1]
        else:
            offs = range(len(w))
            vals = [0, 1, 0x7F, 0x80, 0xFD, 0xFF]
        for off in offs:
            for v in vals:
                yield {'fam': 'mutated', 'g': g, 'muts': [{'k': 'sub', 'region': 'any', 'pos': off, 'val': (w[off] + 1 + v) % 256, 'n': 1}]}
            yield {'fam': 'mutated', 'g': g, 'muts': [{'k': 'trunc', 'region': 'any', 'pos': off, 'val': 0, 'n': 1}]}
            if tier == 'thorough':
                yield {'fam': 'mutated', 'g': g, 'muts': [{'k': 'delete-byte', 'region': 'any', 'pos': off, 'val': 0, 'n': 1}]}
                yield {'fam': 'mutated', 'g': g, 'muts': [{'k': 'insert-byte', 'region': 'any', 'pos': off, 'val': 0x80, 'n': 1}]}
        for p in range(n_paths):
            for k in M.STRUCT_KINDS:
                for n in ((1,) if tier == 'quick' else (1, 2, 3)):
                    yield {'fam': 'mutated', 'g': g, 'muts': [{'k': k, 'region': 'any', 'pos': p, 'val': n, 'n': n}]}
        for i in range(64 if tier == 'thorough' else 8):
            for d in (1, 2):
                yield {'fam': 'mutated', 'g': g, 'muts': [{'k': 'len-raw', 'region': 'any', 'pos': i, 'val': d, 'n': d}]}
                yield {'fam': 'mutated', 'g': g, 'muts': [{'k': 'len-raw', 'region': 'any', 'pos': i, 'val': d + 1, 'n': d}]}


def _fuzz(ctx, name):
    from ..core import run_fuzz
    decs = sorted(DECODERS)
    seeds = []
    for g in _seed_specs():
        w = gen_packet(g)
        seeds.append(bytes([decs.index(g['kind'])]) + w)
        el = T.single(w) if g['kind'] != 'name' else T.read_tlv(w, 0, len(w))
        seeds.append(bytes([0x80 | decs.index(g['kind'])]) + w[el[2]:el[3]])
    run_fuzz(ctx, name, 'c07', {'quick': 0, 'thorough': 4000000}, seeds)


SUBCHECKS = {
    'fuzz': SubCheck(run_case, external=_fuzz,
                     note='atheris (libFuzzer) campaign, thorough tier only: coverage-guided bytes -> decoder selected by the first byte '
                          '(optionally behind a correct outer type-length), the same differential oracle inside the target; even shards '
                          'start from seed packets, odd shards from an empty corpus'),
    'single-edits': SubCheck(run_case, enumerate=_single_edits, exhaustive={'quick': False, 'thorough': True},
                             note='every single byte substitution (6 values) / truncation / byte insert / byte delete at every offset and every '
                                  'structural edit at every tree position of 5 seed packets (thorough); a stride-5 sample in quick'),
    'inputs': SubCheck(run_case, strategy=lambda tier: _input_case(), examples={'quick': 12000, 'thorough': 600000}),
    'threads': SubCheck(run_threads, strategy=lambda tier: _threads_case(), examples={'quick': 40, 'thorough': 400},
                        note='2..3 threads decoding fixed well-formed packets concurrently (switch interval 1 us), 60..150 rounds each; '
                             'sound but probabilistic: a clean run does not show thread safety'),
    'sequences': SubCheck(run_sequence, strategy=lambda tier: _sequence_case(), examples={'quick': 3000, 'thorough': 100000},
                          note='2..8 inputs decoded one after the other in the same process (half of the sequences through one decoder), '
                               'each compared with the strict reading of that input alone; non-trivial = an accepted input after a rejected one'),
}
