"""C02 - signed bytes are the specified bytes; tampering is detected; parameters digest iff."""
import hashlib

from Cryptodome.PublicKey import ECC, RSA
from hypothesis import strategies as st

from ndn.encoding import parse_data, parse_interest
from ndn.security.validator.digest_validator import params_sha256_checker, sha256_digest_checker
from ndn.security.validator.known_key_validator import (EccChecker, Ed25519Checker, HmacChecker, RsaChecker,
                                                        verify_ecdsa, verify_ed25519, verify_hmac, verify_rsa)

from .. import keys as K
from .. import mut as M
from .. import pkt as P
from .. import strats as S
from ..core import Result, SubCheck
from ..refs import tlv as T
from .c01_roundtrip import _exc_sig, build

PROPERTY_ID = 'C02'
RULE = ('C01-style signed packets (recording signer) each followed by a drawn list of mutations of the emitted wire: single-byte '
        'substitutions weighted to signed portion / SignatureInfo / SignatureValue / digest component, truncations, raw length '
        'edits, byte insert/delete, and TLV-level edits with re-fixed lengths (delete, duplicate, swap, insert critical / '
        'non-critical, retype, grow, shrink, empty). Oracles: signer input == reference signed portion == parsed covered part; '
        'library verifier (raw function and from_key checker incl. key-locator prefix rule) accepts the original; for each mutant '
        'the library parser accepts and the strict reader accepts, signed portion or signature value differing => every verdict '
        'False; params_sha256_checker == (digest component == SHA-256(ApplicationParameters..end)) both directions. '
        'Enumeration sub-check: every offset x byte values of one small packet per signer kind. '
        'Non-trivial = mutant still parses (verifier really consulted); distinct key = (kind, signer, mutation kind, region hit, verdict).')
ASSUMPTIONS = [
    'pycryptodome verification is the reference for "signature verifies"',
    'sha256_digest_checker deliberately passes packets whose SignatureType is not DigestSha256; after a mutation that changes '
    'the SignatureType it is no longer the matching verifier and no demand is made on it',
    'an exception raised by a verifier on a structurally damaged packet counts as "not accepted"',
    'mutants the strict reader rejects as malformed are C07 territory: no verdict demand here',
]


def run_sync(coro):
    try:
        coro.send(None)
    except StopIteration as e:
        return e.value
    coro.close()
    raise RuntimeError('validator suspended')


def lib_verdicts(spec, name, sig, kl_prefix):
    """All library verifiers that match the signer kind -> dict label -> bool | 'raised:<Exc>'."""
    k = spec['kind']
    out = {}
    from ndn.security.validator.digest_validator import union_checker

    def call(label, fn):
        try:
            out[label] = bool(fn())
        except Exception as e:  # not accepted
            out[label] = f'raised:{type(e).__name__}'
    if k == 'digest':
        call('sha256_digest_checker', lambda: run_sync(sha256_digest_checker(name, sig)))
    elif k == 'hmac':
        key = bytes.fromhex(spec['hkey'])
        call('verify_hmac', lambda: verify_hmac(key, sig))
        call('HmacChecker', lambda: run_sync(HmacChecker.from_key(kl_prefix, key)(name, sig)))
    elif k == 'rsa':
        pub = K.KEYS[spec['key']]['pub']
        call('verify_rsa', lambda: verify_rsa(RSA.import_key(pub), sig))
        call('RsaChecker', lambda: run_sync(RsaChecker.from_key(kl_prefix, pub)(name, sig)))
        call('union(RsaChecker,digest)', lambda: run_sync(union_checker(RsaChecker.from_key(kl_prefix, pub), sha256_digest_checker)(name, sig)))
        from ..sim.appsim import shape_callable
        call('union(wrapped(RsaChecker))', lambda: run_sync(union_checker(shape_callable(RsaChecker.from_key(kl_prefix, pub), 'wrapped'))(name, sig)))
    elif k == 'ecdsa':
        pub = K.KEYS[spec['key']]['pub']
        call('verify_ecdsa', lambda: verify_ecdsa(ECC.import_key(pub), sig))
        call('EccChecker', lambda: run_sync(EccChecker.from_key(kl_prefix, pub)(name, sig)))
        # the documented way to combine checkers: every member has to pass (the digest checker passes what is not digest-signed)
        call('union(digest,EccChecker)', lambda: run_sync(union_checker(sha256_digest_checker, EccChecker.from_key(kl_prefix, pub))(name, sig)))
        # members in other legal forms of "a callable returning an awaitable" (a policy object with a plain __call__ - the form of
        # the library's own CascadeChecker -, a forwarding lambda)
        from ..sim.appsim import shape_callable
        call('union(object(EccChecker),digest)', lambda: run_sync(union_checker(shape_callable(EccChecker.from_key(kl_prefix, pub), 'object'),
                                                                                  sha256_digest_checker)(name, sig)))
        call('union(digest,lambda(EccChecker))', lambda: run_sync(union_checker(sha256_digest_checker,
                                                                                  shape_callable(EccChecker.from_key(kl_prefix, pub), 'lambda'))(name, sig)))
    elif k == 'ed25519':
        pub = K.KEYS[spec['key']]['pub']
        call('verify_ed25519', lambda: verify_ed25519(ECC.import_key(pub), sig))
        call('Ed25519Checker', lambda: run_sync(Ed25519Checker.from_key(kl_prefix, pub)(name, sig)))
    return out


def _parse(kind, wire):
    return parse_data(wire) if kind == 'data' else parse_interest(wire)


def _strict(kind, wire):
    return P.strict_data(wire) if kind == 'data' else P.strict_interest(wire)


def ref_digest_ok(si):
    """Reference answer for the parameters digest of a strictly-read Interest (None = no demand)."""
    if si['app_param'] is None:
        return None
    if si['n_digest_comps'] == 0:
        return False
    if si['n_digest_comps'] > 1:
        return None
    return hashlib.sha256(si['digest_covered']).digest() == si['digest_comp']


def run_case(case):
    r = Result()
    pc = case['packet']
    kind, spec = pc['kind'], pc['signer']
    skind = spec['kind']
    try:
        exp, wire, payload, signer, _fn = build(pc)
    except Exception as e:
        return r.bad(f'C02/encode-exception/{kind}/{_exc_sig(e)}', repr(e))
    try:
        s0 = _strict(kind, wire)
    except T.Malformed as e:
        return r.bad(f'C02/wire-malformed/{kind}/{skind}', str(e))
    classes = [kind, f'signer:{skind}']
    keys = set()
    name, _p, _c, sig = _parse(kind, wire)
    if exp.signed:
        seen = b''.join(signer.seen) if signer.seen is not None else None
        exp_wire, signed_portion, _f = exp.assemble(payload, s0['sig_value'])
        # (a) three-way agreement on the signed bytes
        if seen != signed_portion:
            r.bad(f'C02/signer-input/{kind}/{skind}', f'signer saw {None if seen is None else seen[:60].hex()}.. '
                  f'(len {None if seen is None else len(seen)}), spec portion {signed_portion[:60].hex()}.. (len {len(signed_portion)})')
        if s0['signed'] != signed_portion:
            r.bad(f'C02/wire-signed-portion/{kind}/{skind}', 'strict reading of the emitted wire differs from the spec portion')
        cov = b''.join(bytes(b) for b in sig.signature_covered_part)
        if cov != signed_portion:
            r.bad(f'C02/parsed-covered-part/{kind}/{skind}', f'parser reports {cov[:60].hex()}.. (len {len(cov)}), '
                  f'spec portion {signed_portion[:60].hex()}.. (len {len(signed_portion)})')
        if bytes(sig.signature_value_buf) != s0['sig_value']:
            r.bad(f'C02/parsed-sigvalue/{kind}/{skind}', '')
        kl = S.name_comps(spec['kl']) if spec.get('kl') is not None else []
        cut = case['kl_cut'] % (len(kl) + 1)
        good = lib_verdicts(spec, name, sig, kl[:cut])
        for label, v in good.items():
            if v is not True:
                r.bad(f'C02/original-rejected/{kind}/{label}', f'{v}')
        # key-locator prefix rule of the from_key wrappers: a key name that is not a prefix must reject
        if skind in ('hmac', 'rsa', 'ecdsa', 'ed25519'):
            other = kl[:cut] + [T.enc_tlv(8, b'\x00zz-not-there')]
            bad = lib_verdicts(spec, name, sig, other)
            for label, v in bad.items():
                if 'Checker' in label and v is True:
                    r.bad(f'C02/keylocator-prefix-ignored/{label}', f'key name {other} accepted for locator {kl}')
    if kind == 'interest' and s0['app_param'] is not None:
        got = run_sync(params_sha256_checker(name, sig))
        if got is not True:
            r.bad('C02/params-digest/original-rejected', f'{got}')
    # (b), (c) mutants
    regions = s0['_off']
    n_parsed = 0
    for m in case['muts']:
        mw = M.apply(wire, m, regions)
        if mw is None or mw == wire:
            continue
        try:
            mname, _mp, _mc, msig = _parse(kind, mw)
        except Exception:
            classes.append('mutant:parser-rejects')
            continue
        try:
            s1 = _strict(kind, mw)
        except T.Malformed:
            classes.append('mutant:parser-accepts-strict-rejects')
            continue
        n_parsed += 1
        classes.append('mutant:parses')
        differs = (s1['signed'], s1['sig_value']) != (s0['signed'], s0['sig_value'])
        verdict = None
        if exp.signed:
            kl = S.name_comps(spec['kl']) if spec.get('kl') is not None else []
            verd = lib_verdicts(spec, mname, msig, [])
            type_same = (s1['sig_info'] or {}).get('signature_type') == K.SIG_TYPE[skind]
            for label, v in verd.items():
                if label == 'sha256_digest_checker' and not type_same:
                    continue
                if differs and v is True:
                    r.bad(f'C02/tamper-accepted/{kind}/{label}/{m["k"]}',
                          f'mutation {m} of {wire.hex()[:120]}.. accepted; signed/sig differ')
                verdict = v if verdict is None else verdict
        if kind == 'interest':
            want = ref_digest_ok(s1)
            if want is not None:
                try:
                    got = bool(run_sync(params_sha256_checker(mname, msig)))
                except Exception as e:
                    got = f'raised:{type(e).__name__}'
                if got is True and not want:
                    r.bad(f'C02/params-digest/accepted-wrong/{m["k"]}', f'mutation {m}: {mw.hex()[:160]}')
                elif want and got is not True:
                    r.bad(f'C02/params-digest/rejected-right/{m["k"]}', f'mutation {m} -> {got}: {mw.hex()[:160]}')
                classes.append(f'digest-verdict:{want}')
        keys.add((kind, skind, m['k'], m['region'] if m['k'] in M.BYTE_KINDS else 'tree', differs, str(verdict)))
    r.key = sorted(keys) if n_parsed else None
    r.classes = tuple(classes)
    return r


@st.composite
def _case(draw, tier):
    kinds = ['digest', 'hmac', 'rsa', 'ecdsa', 'ed25519', 'synthetic', 'null', 'none']
    pc = draw(P.packet_case(kinds, max_total=600))
    if pc['signer']['kind'] == 'rsa':
        pc['signer']['key'] = draw(st.sampled_from(['rsa1024-0', 'rsa1024-1', 'rsa1024-0', 'rsa2048-0']))
    if pc['signer'].get('kl') == []:
        pc['signer']['kl'] = [[8, '6b']]   # key names are never empty for real callers (checkers refuse an empty locator)
    n = 24 if tier == 'quick' else 40
    return {'packet': pc, 'kl_cut': draw(st.integers(0, 8)),
            'muts': draw(st.lists(M.mutation_spec(), min_size=4, max_size=n))}


def _small_packets():
    kl = [[8, '6b']]
    specs = [{'kind': 'digest'}, {'kind': 'hmac', 'kl': kl, 'hkey': '0102'}, {'kind': 'ed25519', 'kl': kl, 'key': 'ed25519-0'},
             {'kind': 'ecdsa', 'kl': kl, 'key': 'p256-0', 'drbg': 11}, {'kind': 'rsa', 'kl': kl, 'key': 'rsa1024-0'}]
    for sp in specs:
        yield {'kind': 'data', 'name': [[8, '61'], [8, '62']], 'name_rep': 0,
               'meta': {'content_type': 0, 'freshness_period': 1000, 'final_block_id': None},
               'payload': {'hex': '68656c6c6f'}, 'signer': sp}
        yield {'kind': 'interest', 'name': [[8, '61'], [8, '62']], 'name_rep': 0, 'digest_pos': None,
               'params': {'can_be_prefix': True, 'must_be_fresh': False, 'nonce': 7, 'lifetime': 4000, 'hop_limit': None,
                          'forwarding_hint': []},
               'payload': {'hex': '7061'}, 'signer': sp, 'sig_time': 1700000000000, 'sig_nonce': 77}


def _enum(tier):
    """Every offset of small packets x byte values (all 255 for cheap verifiers; 6 for RSA/ECDSA)."""
    for pc in _small_packets():
        cheap = pc['signer']['kind'] in ('digest', 'hmac')
        if tier == 'quick' and not cheap:
            vals = [1]
        elif tier == 'quick':
            vals = [1, 0x80]
        else:
            vals = list(range(1, 256)) if cheap else [1, 2, 0x80, 0xFF, 0x7F, 0x10]
        # offsets are covered by pos = 0..len-1 with region 'any'; chunk 32 offsets per case
        length = 400
        for base in range(0, length, 32):
            for v in vals:
                muts = [{'k': 'sub', 'region': 'any', 'pos': base + i, 'val': -v, 'n': 1} for i in range(32)]
                yield {'packet': pc, 'kl_cut': 0, 'muts': muts, 'abs': True}


def run_enum(case):
    """Like run_case but 'val' is a delta (so every value differs) and positions beyond the wire are dropped."""
    pc = case['packet']
    exp, wire, payload, signer, _fn = build(pc)
    muts = []
    for m in case['muts']:
        if m['pos'] < len(wire):
            muts.append({'k': 'sub', 'region': 'any', 'pos': m['pos'], 'val': (wire[m['pos']] + (-m['val'])) % 256, 'n': 1})
    if not muts:
        return Result(discarded=True)
    return run_case({'packet': pc, 'kl_cut': 0, 'muts': muts})


def run_sig_edge(case):
    """Signature values with a leading 0x00 octet (1 in 256 of RSA / HMAC / digest signatures): the value with that octet removed,
    or with another 0x00 in front, is a DIFFERENT SignatureValue and must be rejected by every matching verifier."""
    r = Result()
    spec = case['signer']
    skind = spec['kind']
    base = [p for p in _small_packets() if p['kind'] == case['kind']][0]
    found = None
    for c in range(case['start'], case['start'] + 1500):
        pc = dict(base, signer=spec, payload={'hex': (b'n%d' % c).hex()})
        exp, wire, payload, signer, _fn = build(pc)
        s0 = _strict(pc['kind'], wire)
        if s0['sig_value'][:1] == b'\x00':
            found = (pc, exp, wire, payload, s0)
            break
    if found is None:
        r.discarded = True
        return r
    pc, exp, wire, payload, s0 = found
    kl = S.name_comps(spec['kl']) if spec.get('kl') is not None else []
    name, _p, _c, sig = _parse(pc['kind'], wire)
    for label, v in lib_verdicts(spec, name, sig, kl[:1]).items():
        if v is not True:
            r.bad(f'C02/original-rejected/{pc["kind"]}/{label}', f'{v} (signature starts with 00)')
    stripped = s0['sig_value'].lstrip(b'\x00')
    for what, newsig in (('leading-zero-removed', s0['sig_value'][1:]), ('all-leading-zeros-removed', stripped),
                         ('zero-prepended', b'\x00' + s0['sig_value'])):
        mw, _sp, _f = exp.assemble(payload, newsig)
        try:
            mname, _mp, _mc, msig = _parse(pc['kind'], mw)
            s1 = _strict(pc['kind'], mw)
        except Exception as e:
            return r.bad('C02/harness/sig-edge-mutant-does-not-parse', f'{e!r}')
        if s1['signed'] != s0['signed']:
            return r.bad('C02/harness/sig-edge-mutant-changes-signed-portion', '')
        for label, v in lib_verdicts(spec, mname, msig, kl[:1]).items():
            if v is True:
                r.bad(f'C02/tamper-accepted/{pc["kind"]}/{label}/{what}', f'SignatureValue {s0["sig_value"][:6].hex()}.. ({len(s0["sig_value"])} octets) '
                      f'replaced by {newsig[:6].hex()}.. ({len(newsig)} octets)')
    r.key = (pc['kind'], skind, spec.get('key'))
    r.classes = (pc['kind'], f'signer:{skind}', 'signature-with-leading-zero')
    return r


def _sig_edge_cases(tier):
    kl = [[8, '6b']]
    specs = [{'kind': 'rsa', 'kl': kl, 'key': 'rsa1024-0'}, {'kind': 'rsa', 'kl': kl, 'key': 'rsa1024-1'},
             {'kind': 'hmac', 'kl': kl, 'hkey': '0102'}, {'kind': 'digest'}]
    if tier == 'thorough':
        specs += [{'kind': 'rsa', 'kl': kl, 'key': 'rsa2048-0'}, {'kind': 'rsa', 'kl': kl, 'key': 'rsa1028-0'}]
    for sp in specs:
        for kind in ('data', 'interest'):
            for start in ((0, 2000) if tier == 'quick' else (0, 2000, 4000, 6000, 8000)):
                yield {'signer': sp, 'kind': kind, 'start': start}


# ---- a second ParametersSha256DigestComponent slipped into the name of a signed Interest -------------------------------------
def run_extra_digest(case):
    """The name of a signed Interest gets an ADDITIONAL component of the ParametersSha256Digest type (an Interest has at most one):
    the name - which the signature protects - is not the signed one any more, so the packet is refused by the decoder or by the
    matching verifier."""
    r = Result()
    pc = [p for p in _small_packets() if p['kind'] == 'interest' and p['signer']['kind'] == case['signer']][0]
    if case.get('digest_pos') is not None:
        pc = dict(pc, digest_pos=case['digest_pos'])
    exp, wire, payload, signer, _fn = build(pc)
    s0 = _strict('interest', wire)
    el = T.single(wire)
    kids = T.walk(wire, el[2], el[3])
    nm = kids[0]
    comps = [wire[c[1]:c[3]] for c in T.walk(wire, nm[2], nm[3])]
    real = [c for c in comps if c[0] == 2][0]
    extra = {'empty': T.enc_tlv(2, b''), 'short': T.enc_tlv(2, b'abc'), 'zeros': T.enc_tlv(2, b'\x00' * 32), 'copy': real}[case['extra']]
    pos = case['pos'] % (len(comps) + 1)
    comps2 = comps[:pos] + [extra] + comps[pos:]
    mw = T.enc_tlv(5, T.enc_tlv(7, b''.join(comps2)) + wire[nm[3]:el[3]])
    spec = pc['signer']
    kl = S.name_comps(spec['kl']) if spec.get('kl') is not None else []
    try:
        mname, _mp, _mc, msig = parse_interest(mw)
    except Exception:
        r.key = ('rejected-by-decoder', case['signer'])
        r.classes = ('extra-digest-component', 'rejected-by-decoder')
        return r
    if [bytes(c) for c in mname] == [bytes(c) for c in parse_interest(wire)[0]]:
        return r.bad('C02/harness/extra-digest-name-unchanged', '')
    for label, v in lib_verdicts(spec, mname, msig, kl[:1]).items():
        if label == 'sha256_digest_checker' and False:
            continue
        if v is True:
            r.bad(f'C02/tamper-accepted/interest/{label}/extra-digest-component',
                  f'component {extra.hex()[:20]} inserted at position {pos} of the name: the name is no longer the signed one, yet it verifies')
    r.key = ('accepted-by-decoder', case['signer'], case['extra'])
    r.classes = ('extra-digest-component', 'decoded')
    return r


def _extra_digest_cases(tier):
    for signer in ('digest', 'hmac', 'ed25519', 'ecdsa', 'rsa'):
        for extra in ('empty', 'short', 'zeros', 'copy'):
            for pos in range(4):
                for dp in (None, 1):
                    yield {'signer': signer, 'extra': extra, 'pos': pos, 'digest_pos': dp}


# ---- genuine ECDSA signatures of unusual length ---------------------------------------------------------------------------------
_P256_N = 0xFFFFFFFF00000000FFFFFFFFFFFFFFFFBCE6FAADA7179E84F3B9CAC2FC632551


def _der_int(v):
    b = v.to_bytes((v.bit_length() + 8) // 8 or 1, 'big')      # minimal, with a leading 0x00 when the top bit is set
    return b'\x02' + bytes([len(b)]) + b


class _ChosenEcdsa:
    """A signer (the public Signer interface) producing a GENUINE SignatureSha256WithEcdsa whose s is a chosen small number: for the
    nonce k and the wanted s it solves s = k^-1 (z + r d) for the private key d, so the signature verifies under Q = d G."""

    def __init__(self, kl, k, s_val):
        self.kl, self.k, self.s_val = kl, k, s_val
        self.d = None

    def write_signature_info(self, signature_info):
        from ndn.encoding import KeyLocator
        signature_info.signature_type = 3
        signature_info.key_locator = KeyLocator()
        signature_info.key_locator.name = self.kl

    def get_signature_value_size(self):
        return 72

    def write_signature_value(self, wire, contents):
        z = int.from_bytes(hashlib.sha256(b''.join(bytes(c) for c in contents)).digest(), 'big')
        rr = int(ECC.construct(curve='P-256', d=self.k).pointQ.x) % _P256_N
        self.d = (self.s_val * self.k - z) * pow(rr, -1, _P256_N) % _P256_N
        body = _der_int(rr) + _der_int(self.s_val)
        sig = b'\x30' + bytes([len(body)]) + body
        wire[:len(sig)] = sig
        return len(sig)


def run_ecdsa_short(case):
    from Cryptodome.Hash import SHA256
    from Cryptodome.Signature import DSS
    from ndn.encoding import InterestParam, MetaInfo, Signer, make_data, make_interest
    Signer.register(_ChosenEcdsa)
    r = Result()
    kl = [T.enc_tlv(8, b'k')]
    s_val = (case['s_seed'] % ((1 << case['s_bits']) - 1)) + 1
    signer = _ChosenEcdsa(kl, case['k'], s_val)
    name = [T.enc_tlv(8, b'short'), T.enc_tlv(8, b'%d' % case['s_bits'])]
    try:
        if case['kind'] == 'data':
            wire = bytes(make_data(name, MetaInfo(), b'content', signer))
        else:
            wire = bytes(make_interest(name, InterestParam(nonce=5), b'param', signer))
    except Exception as e:
        return r.bad('C02/harness/ecdsa-short-signing-raised', repr(e)[:200])
    if not signer.d:
        r.discarded = True
        return r
    key = ECC.construct(curve='P-256', d=signer.d)
    st_ = _strict(case['kind'], wire)
    try:
        DSS.new(key.public_key(), 'fips-186-3', 'der').verify(SHA256.new(st_['signed']), st_['sig_value'])
    except ValueError:
        return r.bad('C02/harness/ecdsa-short-signature-not-genuine', st_['sig_value'].hex())
    pname, _p, _c, sig = _parse(case['kind'], wire)
    pub = key.public_key().export_key(format='DER')
    for label, fn in (('verify_ecdsa', lambda: verify_ecdsa(ECC.import_key(pub), sig)),
                      ('EccChecker', lambda: run_sync(EccChecker.from_key(kl, pub)(pname, sig)))):
        try:
            v = bool(fn())
        except Exception as e:
            v = f'raised:{type(e).__name__}'
        if v is not True:
            r.bad(f'C02/original-rejected/{case["kind"]}/{label}/short-ecdsa-signature',
                  f'{v}: genuine signature of {len(st_["sig_value"])} octets (s has {s_val.bit_length()} bits)')
    # ... and it is still a signature over exactly these bytes
    if not r.violations:
        i = wire.rindex(b'content' if case['kind'] == 'data' else b'param')
        mw = wire[:i] + bytes([wire[i] ^ 1]) + wire[i + 1:]
        try:
            mname, _mp, _mc, msig = _parse(case['kind'], mw)
            if verify_ecdsa(ECC.import_key(pub), msig):
                r.bad(f'C02/tamper-accepted/{case["kind"]}/verify_ecdsa/short-ecdsa-signature', '')
        except Exception:
            pass
    r.key = (case['kind'], len(st_['sig_value']))
    r.classes = (case['kind'], f'signature-octets:{len(st_["sig_value"])}')
    return r


def _ecdsa_short_cases(tier):
    for kind in ('data', 'interest'):
        for s_bits in (1, 8, 64, 128, 200, 224, 232, 240, 247, 248, 255):
            for k in ((3, 0x1234567) if tier == 'quick' else (3, 0x1234567, 2 ** 200 + 9, _P256_N - 2)):
                yield {'kind': kind, 's_bits': s_bits, 's_seed': 0x9e3779b97f4a7c15f39cc0605cedc834 * (k + s_bits), 'k': k}


SUBCHECKS = {
    'extra-digest': SubCheck(run_extra_digest, enumerate=_extra_digest_cases, exhaustive={'quick': True, 'thorough': True},
                             note='a second ParametersSha256DigestComponent inserted at every position of a signed Interest name'),
    'ecdsa-short': SubCheck(run_ecdsa_short, enumerate=_ecdsa_short_cases, exhaustive={'quick': False, 'thorough': False},
                            note='genuine ECDSA signatures whose s has 1..255 bits (DER length 37..72): the matching verifier accepts'),
    'sig-edge': SubCheck(run_sig_edge, enumerate=_sig_edge_cases, exhaustive={'quick': False, 'thorough': False},
                         note='packets searched for a SignatureValue starting with 0x00 (RSA, HMAC, digest); that octet removed / '
                              'another one prepended must be rejected'),
    'offsets': SubCheck(run_enum, enumerate=_enum, exhaustive={'quick': False, 'thorough': True},
                        note='every byte offset of 10 small packets (5 signer kinds x Data/Interest) x substituted values '
                             '(thorough: all 255 for digest/HMAC, 6 for Ed25519/ECDSA/RSA; quick: 1-2 values)'),
    'packets': SubCheck(run_case, strategy=lambda tier: _case(tier), examples={'quick': 4000, 'thorough': 100000}),
}
