"""C05 - nothing that needs validation reaches the application unvalidated."""
import asyncio
import hashlib
import itertools

from hypothesis import strategies as st

from ndn.types import ValidResult

from .. import pkt as P
from ..core import Result, SubCheck
from ..refs import tlv as T
from ..sim import net
from ..sim.appsim import AppSim, exc_site

PROPERTY_ID = 'C05'
RULE = ('Data side: express with a harness validator returning every ValidResult (v2) / {True,False,None,0,1,"","x"} (legacy) after a '
        'latency in {0, 1 ms, lifetime-1, lifetime, lifetime+20}, for Data signed none/digest/bad-digest, validator supplied or not. '
        'Interest side: incoming Interest in {plain, parameters, parameters+signature, signature only} x digest {correct, digest byte '
        'flipped, parameter byte flipped, component missing} x route validator {absent, each verdict, slow} (legacy: plus app-wide '
        'int_validator default or replaced). Oracle: call log kept by the harness validators/handlers: accepted-before-delivered, '
        'verdict mapping, ValidationFailure carries the packet and verdict, late validator => timeout (v2), plain Interests never '
        'consult a validator; result awaited 30 ms after express(); a refused duplicate attach with a permissive validator changes nothing. The whole combination grid is enumerated (exhaustive) and additionally sampled in mixed batches on '
        'one app instance. Non-trivial = verdict not in {PASS,FAIL}/{True,False}, corrupted digest, missing validator, or latency >= '
        'lifetime; distinct key = (front-end, side, verdict, digest state, latency class, signing).')
ASSUMPTIONS = [
    'legacy front-end: validator finishing after the deadline may yield its verdict or a timeout (awaited outside wait_for by design)',
    'legacy default validators are sha256_digest_checker, which by design accepts packets whose SignatureType is not DigestSha256',
    'a route validator that raises TimeoutError (e.g. a certificate fetch that timed out) has not accepted the Interest; other '
    'exceptions from validators are outside the stated quantifier',
]

V2_VERDICTS = ['FAIL', 'TIMEOUT', 'SILENCE', 'PASS', 'ALLOW_BYPASS']
LEGACY_VERDICTS = [True, False, None, 0, 1, '', 'x']
LATS = ['0', '1ms', 'life-1', 'life', 'life+20']
LIFE = 50


def lat_s(code):
    return {'0': 0.0, '1ms': 0.001, 'life-1': (LIFE - 1) / 1000, 'life': LIFE / 1000, 'life+20': (LIFE + 20) / 1000, '400ms': 0.4}[code]


def _verdict_obj(fe, v):
    return ValidResult[v] if fe == 'v2' else v


def _accepting(fe, v):
    return v in ('PASS', 'ALLOW_BYPASS') if fe == 'v2' else bool(v)      # 'RAISE_TIMEOUT' (a raising validator) accepts nothing


# ---- Data side ----------------------------------------------------------------------------------------------
def data_item(sim, fe, it, r, idx):
    name = [net.comp('d'), net.comp(str(idx))]
    dsig = it['dsig']
    wire = net.data_wire(name, content=b'payload%d' % idx, sig={'none': None, 'digest': 'digest', 'bad': 'baddigest', 'short': 'shortdigest', 'empty': 'emptydigest',
                                                                     'long': 'longdigest'}[dsig],
                         freshness=1000)
    supplied = it['validator'] == 'supplied'
    if it.get('by_digest'):
        # the Interest names exactly this Data packet (trailing ImplicitSha256Digest): the validator still decides
        name = name + [T.enc_tlv(1, hashlib.sha256(wire).digest())]
    if fe == 'v2' and not supplied:
        h = sim.express(name, lifetime=LIFE, validator='none')
        if not isinstance(h.express_error, ValueError):
            r.bad('C05/v2/data/express-without-validator-accepted', f'{h.express_error!r}')
        return ('v2', 'data', 'no-validator')
    # (life0: InterestLifetime 0 - the Interest is over at once, give or take the library's 100 ms grace for an expired deadline)
    life = 0 if it.get('life0') else LIFE
    h = sim.express(name, lifetime=life, vlat=lat_s(it['lat']), verdict=_verdict_obj(fe, it['verdict']),
                    validator='default' if supplied else 'none', await_after=0.03 if it.get('await_later') else 0.0,
                    falsy_validator=it.get('falsy') or False)
    if h.express_error is not None:
        r.bad(f'C05/{fe}/data/express-raised/{exc_site(h.express_error)}', repr(h.express_error))
        return None
    t_data = sim.vl.now_ms()
    sim.deliver(wire, 'task')
    sim.vl.advance(0.6 if it.get('life0') else 0.2)
    out = h.outcome
    label = 'none' if out is None else ('data' if out[0] == 'data' else out[1])
    deadline = h.t0_ms + (100 if it.get('life0') else LIFE)
    if supplied:
        acc = _accepting(fe, it['verdict'])
        vdone = t_data + int(lat_s(it['lat']) * 1000)
        calls = h.validator_calls
        if label == 'data':
            # returned only if the supplied validator was called and accepted before the result was produced
            if not calls or calls[0][1] is None or calls[0][1] > h.done_ms:
                r.bad(f'C05/{fe}/data/returned-before-validation', f'validator log {calls}, returned at {h.done_ms}')
            if not acc:
                r.bad(f'C05/{fe}/data/returned-despite-verdict/{it["verdict"]!r}', f'lat={it["lat"]}')
            if fe == 'v2' and vdone > deadline + 1:
                r.bad('C05/v2/data/returned-after-deadline', f'validator finished {vdone} deadline {deadline}')
        allowed = set()
        if fe == 'v2':
            if vdone < deadline - 1:
                allowed = {'data' if acc else 'ValidationFailure'}
            elif vdone > deadline + 1:
                allowed = {'InterestTimeout'}
            else:
                allowed = {'data' if acc else 'ValidationFailure', 'InterestTimeout'}
        else:
            # the property makes no difference between the front-ends: a validator that is still running at the deadline yields a
            # timeout.  (Known finding: the legacy front-end awaits the validator outside the lifetime - see known_findings.json.)
            if vdone < deadline - 1:
                allowed = {'data' if acc else 'ValidationFailure'}
            elif vdone > deadline + 1:
                allowed = {'InterestTimeout'}
                if label in ('data', 'ValidationFailure'):
                    r.bad(f'C05/legacy/data/validator-outlived-deadline/{"payload-returned" if label == "data" else "verdict-delivered"}',
                          f'validator finished at {vdone} ms, deadline {deadline} ms, outcome {label} (verdict {it["verdict"]!r}, lat={it["lat"]})')
                    allowed = {label}
            else:
                allowed = {'data' if acc else 'ValidationFailure', 'InterestTimeout'}
        if label not in allowed:
            r.bad(f'C05/{fe}/data/outcome/{label}/expected={"|".join(sorted(allowed))}/verdict={it["verdict"]!r}',
                  f'lat={it["lat"]} dsig={dsig} site={out[2].get("site") if out and out[0] == "exc" else ""}')
        if label == 'ValidationFailure':
            vf = out[2]['vf']
            try:
                ok = ([bytes(c) for c in vf.name] == name[:2] and bytes(vf.content) == b'payload%d' % idx
                      and vf.meta_info is not None and vf.meta_info.freshness_period == 1000
                      and vf.sig_ptrs is not None)
                if dsig != 'none':
                    els = T.walk(wire, T.single(wire)[2], len(wire))
                    sv = wire[els[-1][2]:els[-1][3]]
                    ok = ok and bytes(vf.sig_ptrs.signature_value_buf) == sv
            except Exception as e:
                ok = False
            if not ok:
                r.bad(f'C05/{fe}/data/validation-failure-fields', f'name={vf.name} content={vf.content}')
            if fe == 'v2' and getattr(vf, 'result', None) != ValidResult[it['verdict']]:
                r.bad(f'C05/v2/data/validation-failure-result/{it["verdict"]}', f'{getattr(vf, "result", None)}')
    else:
        # legacy without a supplied validator: the app-wide data_validator (default digest checker) is in force
        want = 'ValidationFailure' if dsig in ('bad', 'short', 'empty', 'long') else 'data'
        if label != want:
            r.bad(f'C05/legacy/data/default-validator/{label}/expected={want}', f'dsig={dsig}')
    nontriv = (not supplied) or it['verdict'] not in ('PASS', 'FAIL', True, False) or it['lat'] in ('life', 'life+20') or it.get('falsy')
    return (fe, 'data', repr(it['verdict']), it['lat'], dsig, it['validator'], bool(it.get('await_later')), bool(it.get('by_digest')),
            bool(it.get('falsy'))) if nontriv else ()


# ---- Interest side ------------------------------------------------------------------------------------------------
def _build_interest(name, it):
    kind, dg = it['ikind'], it['digest']
    app = (b'' if it.get('empty_params') else b'params') if kind in ('params', 'params+sig') else None
    sig_info = None
    if kind in ('params+sig', 'sig'):
        sig_info = T.enc_tlv(0x1b, bytes([it.get('sigtype', 0)]))
    if kind == 'plain':
        return net.interest_wire(name, nonce=9, lifetime=4000)
    w = net.interest_wire(name, nonce=9, lifetime=4000, app_param=app, sig_info=sig_info,
                          sig_value=(b'\x00' * 32 if it.get('sigbad') else None),
                          bad_digest=(dg == 'digest-flipped'), no_digest=(dg == 'missing'), omit_sig_value=bool(it.get('no_sig_value')))
    if dg == 'param-flipped':
        # flip one byte inside ApplicationParameters / SignatureInfo region (after the digest was computed)
        target = (b'params' if app else None) or sig_info
        if target is None:
            # empty parameters and no signature: corrupt the (empty) ApplicationParameters element by making it non-empty
            i = w.rindex(b'\x24\x00')
            return w[:1] + bytes([w[1] + 1]) + w[2:i] + b'\x24\x01\x00' + w[i + 2:]
        i = w.rindex(target)
        w = w[:i] + bytes([w[i] ^ 0x01]) + w[i + 1:]
    if dg in ('digest-truncated', 'digest-empty', 'digest-extended'):
        # the ParametersSha256DigestComponent carries a value of the wrong LENGTH whose bytes agree with the right digest as far as
        # they go: it is not the digest of the parameters
        el = T.single(w)
        kids = T.walk(w, el[2], el[3])
        nm = kids[0]
        comps = []
        for c in T.walk(w, nm[2], nm[3]):
            v = w[c[2]:c[3]]
            if c[0] == 2:
                v = {'digest-truncated': v[:31], 'digest-empty': b'', 'digest-extended': v + b'\x00'}[dg]
            comps.append(T.enc_tlv(c[0], v))
        w = T.enc_tlv(5, T.enc_tlv(7, b''.join(comps)) + w[nm[3]:el[3]])
    if dg == 'trailing-unknown':
        # an unrecognised non-critical element appended at the end of the Interest after the digest was computed: the
        # parameters digest covers everything from ApplicationParameters to the END of the Interest, so it is stale now
        el = T.single(w)
        body = w[el[2]:el[3]] + T.enc_tlv(0xF0, b'\x00')
        w = T.enc_num(5) + T.enc_num(len(body)) + body
    return w


def interest_item(sim, fe, it, r, idx):
    prefix = [net.comp('i'), net.comp(str(idx))]
    name = prefix + [net.comp('x')]
    log = []
    vl = sim.vl
    rv = it['route_validator']          # 'absent' | verdict | ('slow', verdict)

    def handler_v2(nm, app_param, reply, ctx):
        log.append(('handler', vl.now_ms()))

    def handler_legacy(nm, param, app_param):
        log.append(('handler', vl.now_ms()))

    def mk_validator(tag, verdict, slow):
        if fe == 'v2':
            async def v(nm, sig, ctx):
                log.append((tag + '-start', vl.now_ms()))
                if slow:
                    await asyncio.sleep(0.03)
                log.append((tag + '-end', vl.now_ms()))
                if verdict == 'RAISE_TIMEOUT':
                    raise TimeoutError('certificate fetch timed out')
                return _verdict_obj(fe, verdict)
        else:
            async def v(nm, sig):
                log.append((tag + '-start', vl.now_ms()))
                if slow:
                    await asyncio.sleep(0.03)
                log.append((tag + '-end', vl.now_ms()))
                return verdict
        if it.get('falsy_route_validator') and tag == 'route':
            # a callable policy OBJECT that is falsy (it has a __len__): it is the validator given for the route all the same
            from ..sim.appsim import shape_callable
            return shape_callable(v, it['falsy_route_validator'])
        return v
    route_v = None
    verdict = None
    if rv != 'absent':
        slow = isinstance(rv, list)
        verdict = rv[1] if slow else rv
        route_v = mk_validator('route', verdict, slow)
    app_v = it.get('app_validator', 'default')
    if it.get('reattach'):
        # an earlier registration on the same prefix, with a permissive validator, attached and removed again
        if fe == 'v2':
            vl.call(sim.app.attach_handler, prefix, lambda *a: log.append(('old-handler', vl.now_ms())), mk_validator('old', 'PASS', False))
            vl.call(sim.app.detach_handler, prefix)
        else:
            vl.call(sim.app.set_interest_filter, prefix, lambda *a: log.append(('old-handler', vl.now_ms())), mk_validator('old', True, False))
            vl.call(sim.app.unset_interest_filter, prefix)
    if fe == 'v2':
        vl.call(sim.app.attach_handler, prefix, handler_v2, route_v)
    else:
        # the application-wide Interest validator is replaced before - or only after - the route is installed: the validator
        # in force when the Interest arrives decides
        if app_v != 'default' and not it.get('appv_late'):
            sim.app.int_validator = mk_validator('app', app_v, False)
        vl.call(sim.app.set_interest_filter, prefix, handler_legacy, route_v)
        if app_v != 'default' and it.get('appv_late'):
            sim.app.int_validator = mk_validator('app', app_v, False)
    if it.get('refused_dup'):
        # a second registration on the occupied prefix, with a permissive validator, is refused and must change nothing
        try:
            if fe == 'v2':
                vl.call(sim.app.attach_handler, prefix, lambda *a: log.append(('old-handler', vl.now_ms())), mk_validator('old', 'PASS', False))
            else:
                vl.call(sim.app.set_interest_filter, prefix, lambda *a: log.append(('old-handler', vl.now_ms())), mk_validator('old', True, False))
            r.bad(f'C05/{fe}/interest/duplicate-attach-accepted', '')
        except ValueError:
            pass
    wire = _build_interest(name, it)
    sim.deliver(wire, 'task')
    if it.get('attach_during') and rv != 'absent' and isinstance(rv, list):
        # while the (30 ms) validator of the matching route runs, another handler - without any validator - is attached on a
        # longer prefix of the Interest's name: the Interest was matched to the first route and its validator; the newcomer
        # must not receive what its own validation never accepted
        vl.advance(0.01)
        late = lambda *a: log.append(('late-handler', vl.now_ms()))      # noqa
        if fe == 'v2':
            vl.call(sim.app.attach_handler, name, late)
        else:
            vl.call(sim.app.set_interest_filter, name, late, mk_validator('late', False, False))
    vl.advance(0.1)
    if fe == 'legacy' and app_v != 'default':
        from ndn.security import sha256_digest_checker
        sim.app.int_validator = sha256_digest_checker
    delivered = [e for e in log if e[0] == 'handler']
    kind, dg = it['ikind'], it['digest']
    needs = kind != 'plain'
    signed = kind in ('params+sig', 'sig')
    digest_ok = dg == 'correct'
    sigtype = it.get('sigtype', 0)
    # reference decision
    if not needs:
        want = True
        consulted = None
    elif not digest_ok:
        want = False
        consulted = None
    elif fe == 'v2':
        want = rv != 'absent' and _accepting('v2', verdict)
        consulted = 'route' if rv != 'absent' else None
    else:
        if not signed:
            want = True
            consulted = None
        elif rv != 'absent':
            want = bool(verdict)
            consulted = 'route'
        elif app_v != 'default':
            want = bool(app_v)
            consulted = 'app'
        else:
            # default int_validator = sha256_digest_checker
            want = (sigtype != 0) or not it.get('sigbad')
            consulted = None
    tag = f'{kind}/{dg}/rv={rv!r}/appv={app_v!r}'
    if any(e[0] == 'late-handler' for e in log):
        r.bad(f'C05/{fe}/interest/delivered-to-handler-attached-during-validation', f'{tag} log={log}')
    if any(e[0] == 'old-handler' for e in log):
        r.bad(f'C05/{fe}/interest/delivered-to-removed-handler', tag)
    if any(e[0].startswith('old-') and e[0] != 'old-handler' for e in log) and not (delivered and False):
        r.bad(f'C05/{fe}/interest/removed-validator-consulted', f'{tag} log={log}')
    if len(delivered) > 1:
        r.bad(f'C05/{fe}/interest/delivered-twice', tag)
    if bool(delivered) != want:
        r.bad(f'C05/{fe}/interest/{"delivered-unvalidated" if delivered else "wrongly-dropped"}/{kind}/{dg}',
              f'{tag} log={log}')
    if delivered and consulted:
        ends = [e for e in log if e[0] == consulted + '-end']
        if not ends or ends[0][1] > delivered[0][1] or log.index(ends[0]) > log.index(delivered[0]):
            r.bad(f'C05/{fe}/interest/handler-before-validator', f'{tag} log={log}')
    if not needs and any(e[0].endswith('-start') for e in log):
        r.bad(f'C05/{fe}/interest/plain-consulted-validator', f'{tag} log={log}')
    if needs and not digest_ok and any(e[0].endswith('-start') for e in log):
        pass  # consulting a validator for a packet that is dropped anyway is harmless
    if sim.receive_errors:
        r.bad(f'C05/{fe}/interest/receive-raised/{sim.receive_errors[0].split(":")[0]}', sim.receive_errors[0])
        sim.receive_errors.clear()
    if verdict == 'RAISE_TIMEOUT':
        sim.vl.collect_errors()       # the validator's own exception ending its task is not this check's business
    nontriv = needs and (dg != 'correct' or rv == 'absent' or isinstance(rv, list) or rv not in ('PASS', 'FAIL', True, False))
    return (fe, 'interest', kind, dg, repr(rv), repr(app_v), sigtype, bool(it.get('sigbad')), bool(it.get('refused_dup')), bool(it.get('appv_late')), bool(it.get('attach_during')), bool(it.get('no_sig_value'))) if nontriv else ()


def replay_item(sim, fe, it, r, idx):
    """Several signed Interests carrying the SAME parameters (hence the same parameters digest) reach one route, whose validator
    answers per call (the name changed under the old signature; a signature accepted once is not accepted again; the key was
    revoked meanwhile): each Interest is handed over iff the validator accepted THAT Interest."""
    prefix = [net.comp('r'), net.comp(str(idx))]
    log = []
    vl = sim.vl
    verdicts = it['verdicts']
    calls = [0]
    if fe == 'v2':
        async def v(nm, sig, ctx):
            i = calls[0]
            calls[0] += 1
            return _verdict_obj(fe, verdicts[min(i, len(verdicts) - 1)])
        vl.call(sim.app.attach_handler, prefix, lambda nm, ap, reply, ctx: log.append(bytes(nm[-2])), v)
    else:
        async def v(nm, sig):
            i = calls[0]
            calls[0] += 1
            return verdicts[min(i, len(verdicts) - 1)]
        vl.call(sim.app.set_interest_filter, prefix, lambda nm, p, ap: log.append(bytes(nm[-2])), v)
    first = _build_interest(prefix + [net.comp('x')], {'ikind': 'params+sig', 'digest': 'correct', 'sigtype': it.get('sigtype', 1)})
    wires = []
    for i, how in enumerate(['first'] + list(it['then'])):
        # 'same': the very same packet again; 'renamed': another name under the route with the parameters block left as it is
        wires.append(first if how in ('first', 'same') else first.replace(net.comp('x'), net.comp('y' if how == 'renamed' else 'z'), 1))
    want = []
    for i, w in enumerate(wires):
        sim.deliver(w, 'task')
        vl.advance(0.02)
        if _accepting(fe, verdicts[min(i, len(verdicts) - 1)]):
            want.append(bytes(P.strict_interest(w)['name'][2]))
    if calls[0] != len(wires):
        r.bad(f'C05/{fe}/replay/validator-not-asked-for-every-interest', f'{calls[0]} calls for {len(wires)} signed Interests; verdicts {verdicts} then {it["then"]}')
    elif log != want:
        r.bad(f'C05/{fe}/replay/{"delivered-unvalidated" if len(log) > len(want) else "wrongly-dropped"}',
              f'handler saw {[x.hex() for x in log]} expected {[x.hex() for x in want]}; verdicts {verdicts} then {it["then"]}')
    if sim.receive_errors:
        r.bad(f'C05/{fe}/replay/receive-raised/{sim.receive_errors[0].split(":")[0]}', sim.receive_errors[0])
        sim.receive_errors.clear()
    return (fe, 'replay', tuple(map(repr, verdicts)), tuple(it['then']))


def pair_item(sim, fe, it, r, idx):
    """Two Interests pending on the SAME name with different validators (verdict / latency); one Data answers both."""
    name = [net.comp('p'), net.comp(str(idx))]
    wire = net.data_wire(name, content=b'pair%d' % idx, freshness=1000)
    hs = []
    for sub in it['subs']:
        hs.append(sim.express(name, lifetime=LIFE, vlat=lat_s(sub['lat']), verdict=_verdict_obj(fe, sub['verdict']),
                              can_be_prefix=sub.get('cbp', False)))
    t_data = sim.vl.now_ms()
    sim.deliver(wire, 'task')
    sim.vl.advance(0.2)
    for sub, h in zip(it['subs'], hs):
        out = h.outcome
        label = 'none' if out is None else ('data' if out[0] == 'data' else out[1])
        acc = _accepting(fe, sub['verdict'])
        vdone = t_data + int(lat_s(sub['lat']) * 1000)
        deadline = h.t0_ms + LIFE
        if fe == 'v2':
            allowed = {'data' if acc else 'ValidationFailure'} if vdone < deadline - 1 else \
                {'InterestTimeout'} if vdone > deadline + 1 else {'data' if acc else 'ValidationFailure', 'InterestTimeout'}
        else:
            allowed = {'data' if acc else 'ValidationFailure'} | ({'InterestTimeout'} if vdone >= deadline - 1 else set())
            if vdone > deadline + 1 and label in ('data', 'ValidationFailure'):
                # (known finding, see data_item: the legacy front-end awaits the validator outside the lifetime)
                r.bad(f'C05/legacy/pair/validator-outlived-deadline/{"payload-returned" if label == "data" else "verdict-delivered"}',
                      f'validator finished at {vdone} ms, deadline {deadline} ms, outcome {label}')
            elif vdone > deadline + 1:
                allowed = {'InterestTimeout'}
        if label == 'data' and (not acc or not h.validator_calls or h.validator_calls[0][1] is None):
            r.bad(f'C05/{fe}/pair/returned-without-own-validator-accepting/{sub["verdict"]!r}',
                  f'own validator calls {h.validator_calls}; siblings {[x["verdict"] for x in it["subs"]]}')
        elif label not in allowed:
            r.bad(f'C05/{fe}/pair/outcome/{label}/expected={"|".join(sorted(allowed))}', f'{sub} among {it["subs"]}')
    return (fe, 'pair', tuple((repr(x['verdict']), x['lat']) for x in it['subs']))


def run_case(case):
    r = Result()
    fe = case['frontend']
    sim = AppSim(fe)
    sim.start()
    keys = []
    classes = [fe]
    try:
        for idx, it in enumerate(case['items']):
            k = data_item(sim, fe, it, r, idx) if it['side'] == 'data' else \
                pair_item(sim, fe, it, r, idx) if it['side'] == 'pair' else \
                replay_item(sim, fe, it, r, idx) if it['side'] == 'replay' else interest_item(sim, fe, it, r, idx)
            classes.append(it['side'])
            if k:
                keys.append(k)
        errs = sim.vl.collect_errors()
        if errs:
            r.bad(f'C05/{fe}/unhandled-loop-error/{errs[0]["type"]}', str(errs[:2]))
    finally:
        sim.finish()
        sim.close()
    r.key = sorted(map(str, keys)) if keys else None
    r.classes = tuple(classes)
    return r


# ---- the grid ------------------------------------------------------------------------------------------------------
_SHAPES = ['lambda', 'object', 'async-object', 'partial', 'future', 'wrapped', 'bound']


def _grid_items(fe):
    verdicts = V2_VERDICTS if fe == 'v2' else LEGACY_VERDICTS
    for v, lat, dsig in itertools.product(verdicts, LATS, ['none', 'digest', 'bad']):
        yield {'side': 'data', 'validator': 'supplied', 'verdict': v, 'lat': lat, 'dsig': dsig}
    for v, lat in itertools.product(verdicts, LATS):
        # the application expresses, does something else for 30 ms (< lifetime), and only then awaits the result
        yield {'side': 'data', 'validator': 'supplied', 'verdict': v, 'lat': lat, 'dsig': 'digest', 'await_later': True}
        yield {'side': 'data', 'validator': 'supplied', 'verdict': v, 'lat': lat, 'dsig': 'digest', 'by_digest': True}
        if lat == '0' and v in ('PASS', True):
            # a validator that needs 400 ms for an Interest whose lifetime is 0: never the payload
            yield {'side': 'data', 'validator': 'supplied', 'verdict': v, 'lat': '400ms', 'dsig': 'digest', 'life0': True}
        # the supplied validator is a callable object that is falsy (an 'empty' collection-like policy object)
        yield {'side': 'data', 'validator': 'supplied', 'verdict': v, 'lat': lat, 'dsig': 'digest', 'falsy': True}
        if lat in ('0', '1ms'):
            # ... or any other legal form of "a callable returning an awaitable" (see sim.appsim.shape_callable)
            for shape in _SHAPES:
                yield {'side': 'data', 'validator': 'supplied', 'verdict': v, 'lat': lat, 'dsig': 'digest', 'falsy': shape}
    for dsig in ['none', 'digest', 'bad', 'short', 'empty', 'long']:
        yield {'side': 'data', 'validator': 'none', 'verdict': None, 'lat': '0', 'dsig': dsig}
    for v1, v2 in itertools.product(verdicts, verdicts):
        if v1 != v2:
            for l1, l2 in (('0', '0'), ('0', '1ms'), ('1ms', '0'), ('0', 'life+20')):
                yield {'side': 'pair', 'subs': [{'verdict': v1, 'lat': l1}, {'verdict': v2, 'lat': l2, 'cbp': True}]}
    acc, rej = ('PASS', 'FAIL') if fe == 'v2' else (True, False)
    for then in (['same'], ['renamed'], ['renamed', 'same'], ['same', 'other']):
        for vs in ([acc, rej], [acc, rej, acc], [rej, acc], [acc, acc, rej]):
            yield {'side': 'replay', 'verdicts': vs, 'then': then}
    rvs = ['absent'] + list(verdicts) + [['slow', verdicts[0]], ['slow', 'PASS' if fe == 'v2' else True]]
    if fe == 'v2':
        rvs += ['RAISE_TIMEOUT', ['slow', 'RAISE_TIMEOUT']]
    for kind in ['plain', 'params', 'params+sig', 'sig']:
        digs = ['correct'] if kind == 'plain' else ['correct', 'digest-flipped', 'param-flipped', 'missing', 'trailing-unknown',
                                                     'digest-truncated', 'digest-empty', 'digest-extended']
        for dg, rv in itertools.product(digs, rvs):
            base = {'side': 'interest', 'ikind': kind, 'digest': dg, 'route_validator': rv}
            if kind in ('params', 'params+sig') and rv in ('absent', verdicts[0], 'PASS', True):
                yield dict(base, empty_params=True)
            if kind != 'plain' and dg == 'correct' and isinstance(rv, list):
                yield dict(base, attach_during=True)
            if kind != 'plain' and dg == 'correct' and rv != 'absent' and not isinstance(rv, list):
                yield dict(base, falsy_route_validator=True)
                if kind == 'params+sig':
                    for shape in _SHAPES:
                        yield dict(base, falsy_route_validator=shape)
            if kind != 'plain' and dg == 'correct' and rv in ('absent', verdicts[0]):
                if fe == 'v2':
                    yield dict(base, reattach=True)
                    yield dict(base, refused_dup=True)
                else:
                    yield dict(base, refused_dup=True)
                    for sigtype, sigbad in [(0, False), (0, True)]:
                        yield dict(base, reattach=True, sigtype=sigtype, sigbad=sigbad)
            if kind in ('params+sig', 'sig') and dg == 'correct' and rv in ('absent', verdicts[0], 'PASS', True) \
                    and not (fe == 'legacy' and rv == 'absent'):
                # InterestSignatureInfo present but NO InterestSignatureValue element: it still claims a signature, so it goes
                # through validation like any signed Interest (a validator cannot accept a signature that is not there, but
                # that is the validator's call)
                yield dict(base, no_sig_value=True)
            if fe == 'v2' or kind in ('plain', 'params') or rv != 'absent':
                yield base
            else:
                for appv in ['default', True, False, None]:
                    if appv == 'default':
                        for sigtype, sigbad in [(0, False), (0, True), (3, True)]:
                            yield dict(base, app_validator=appv, sigtype=sigtype, sigbad=sigbad)
                    else:
                        yield dict(base, app_validator=appv)
                        yield dict(base, app_validator=appv, appv_late=True)


def _grid(tier):
    for fe in ('v2', 'legacy'):
        for it in _grid_items(fe):
            yield {'frontend': fe, 'items': [it]}


def _mixed(fe):
    items = list(_grid_items(fe))
    return st.fixed_dictionaries({'frontend': st.just(fe),
                                  'items': st.lists(st.sampled_from(items), min_size=2, max_size=8)})


SUBCHECKS = {
    'grid': SubCheck(run_case, enumerate=_grid, exhaustive={'quick': True, 'thorough': True},
                     note='complete product verdict x latency x Data signing, and Interest kind x digest state x validator state, both front-ends'),
    'mixed-v2': SubCheck(run_case, strategy=lambda tier: _mixed('v2'), examples={'quick': 1200, 'thorough': 15000}),
    'mixed-legacy': SubCheck(run_case, strategy=lambda tier: _mixed('legacy'), examples={'quick': 1200, 'thorough': 15000}),
}
