"""C18 - state-vector sync merges monotonically and announces exactly when needed."""
import asyncio

from hypothesis import strategies as st

import ndn.app_support.svs.sync as svs_sync
from ndn.app_support.svs import SvsInst, SvsState
from ndn.appv2 import pass_all
from ndn.types import ValidResult
from ndn.security import DigestSha256Signer

from .. import pkt as P
from ..core import Result, SubCheck
from ..refs import tlv as T
from ..sim import net
from ..sim.appsim import AppSim, exc_site

PROPERTY_ID = 'C18'
RULE = ('Histories on one SvsInst (last_used_seq_num -1..3, 0..2 publications before start()) started on appv2.NDNApp (recording face, '
        'virtual time, drawn timer jitter): receive(vector) built '
        'relative to the current local vector - newer / older / incomparable / equal / unknown nodes / own entry above own sequence / '
        'malformed (entry without seq, without node id, truncated TLV, wrong component type, empty) - delivered as a signed sync '
        'Interest through packet reception or directly to the handler; publish(); stop()+start() of the same instance (back to back or '
        'with the loop running in between); advance(dt) with dt in {0, 1 ms, just before / '
        'exactly at / just after next_sync_timing}. Oracle: model local := entry-wise max(local, v) for every accepted v; never '
        'decreases; over-claiming vector changes nothing; missing-data callback +1 iff the vector raised some entry; publish => own '
        'seq+1 and a sync Interest carrying the full local vector before time advances; a suppression period begins when the library '
        'says so (public `state`; the property does not say when) and is then owned by the model (0.1..0.3 s unless a publication ends it): '
        'at its end a sync Interest is emitted iff some local entry exceeds the merge of the vectors heard in the period; '
        'every emitted sync Interest carries exactly the current local vector; no exception escapes. Non-trivial = a suppression period '
        'with >=2 heard vectors, or a malformed / over-claiming vector; distinct key = abstract trace.')
ASSUMPTIONS = [
    'a vector containing an entry without node id or without sequence number: either the whole vector is ignored or the bad entry is '
    'skipped and the rest merged (the property does not say which); no exception either way',
    'only single-node safety statements; convergence of several nodes is out of reach (liveness)',
]

BASE = [net.comp('sync')]
ME = [net.comp('me')]
NODES = {'me': ME, 'n1': [net.comp('n1')], 'n2': [net.comp('n2')], 'n3': [net.comp('n3'), net.comp('x')]}


class _Secrets:
    def __init__(self, vals):
        self.vals = list(vals) or [0]
        self.i = 0

    def randbits(self, k):
        v = self.vals[self.i % len(self.vals)] % (1 << k)
        self.i += 1
        return v


def node_key(nid):
    return net.name_wire(NODES[nid])


def sv_component(entries, flags=()):
    """entries: list of (node id or None, seq or None)."""
    body = b''
    for nid, seq in entries:
        e = b''
        if nid is not None:
            e += net.name_wire(NODES[nid])
        if seq is not None:
            e += T.enc_tlv(0xcc, T.enc_nni(seq) if 'bad-width' not in flags else seq.to_bytes(3, 'big'))
        body += T.enc_tlv(0xca, e)
    vec = body
    # StateVecWrapper: 0xc9 { entries 0xca* }   (the wrapper TLV itself is used as the name component)
    comp = T.enc_tlv(0xc9, vec)
    if 'truncated' in flags and len(comp) > 3:
        comp = comp[:2] + comp[2:-2]          # inner lengths now overrun
        comp = bytes([comp[0], len(comp) - 2]) + comp[2:] if len(comp) - 2 < 253 else comp
    if 'wrong-type' in flags:
        comp = T.enc_tlv(8, vec)
    return comp


def sync_interest(entries, flags=()):
    comp = sv_component(entries, flags)
    return net.interest_wire(BASE + [comp], nonce=11, lifetime=1000, app_param=b'', sig_info=T.enc_tlv(0x1b, b'\x00'))


def decode_sv_comp(comp):
    el = T.single(comp)
    if el[0] != 0xc9:
        raise T.Malformed('not a state vector component')
    out = {}
    for e in T.walk(comp, el[2], el[3]):
        if e[0] != 0xca:
            continue
        f = P.match_fields(comp, e[2], e[3], [7, 0xcc])
        out[bytes(comp[f[7][1]:f[7][3]])] = T.dec_nni(comp[f[0xcc][2]:f[0xcc][3]])
    return out


def nz_(d):
    return {bytes(k_): v for k_, v in d.items() if v > 0}


def run_case(case):
    r = Result()
    svs_sync.secrets = _Secrets(case['jitter'])
    sim = AppSim('v2')
    svs_sync.time = sim.vl.shim
    sim.start()
    try:
        _run(sim, case, r)
    finally:
        try:
            sim.finish()
        finally:
            sim.close()
            import secrets
            import time
            svs_sync.secrets = secrets
            svs_sync.time = time
    return r


def _run(sim, case, r):
    missing = []
    cb_publishes = {'n': 0}

    class _CbBoom(Exception):
        """the application's callback fails (after it has taken note): its own business - the instance goes on as if it had returned"""

    def on_missing(i):
        missing.append(sim.vl.now_ms())
        if case.get('callback_raises') and len(missing) % 2 == 1:
            raise _CbBoom(len(missing))
        if case.get('publish_in_callback') and cb_publishes['n'] < 3:
            # the application reacts to new data by producing some itself, from inside the (non-blocking) callback
            cb_publishes['n'] += 1
            cb_publishes['pending'] = i.new_data()
    async def awaiting_validator(_n, _s, _c):
        # a validator that really suspends (a few loop iterations, no time passes)
        for _ in range(3):
            await asyncio.sleep(0)
        return ValidResult.PASS
    # the callback as the application may hand it over: a function, a functools.partial, a callable object, a bound method
    shape = case.get('callback_shape', 'function')
    if shape == 'partial':
        import functools
        on_missing_cb = functools.partial(lambda _tag, i: on_missing(i), 'tag')
    elif shape == 'object':
        class _Listener:
            __slots__ = ()

            def __call__(self, i):
                return on_missing(i)
        on_missing_cb = _Listener()
    elif shape == 'bound':
        class _Owner:
            def missing(self, i):
                return on_missing(i)
        on_missing_cb = _Owner().missing
    else:
        on_missing_cb = on_missing
    inst = SvsInst(BASE, ME, on_missing_cb, DigestSha256Signer(for_interest=True),
                   awaiting_validator if case.get('awaiting_validator') else pass_all,
                   sync_interval=30, suppression_interval=0.2, last_used_seq_num=case['start_seq'])
    me_key = node_key('me')
    model = {me_key: case['start_seq']}
    flags = set()
    for _ in range(case.get('publish_before_start', 0)):
        # data produced before the sync group is joined (new_data() is usable before start())
        try:
            seq = inst.new_data()
        except Exception as e:
            r.bad(f'C18/publish-before-start-raised/{type(e).__name__}', repr(e)[:200])
            return
        model[me_key] += 1
        flags.add('publish-before-start')
        if seq != model[me_key]:
            r.bad('C18/publish-sequence/before-start', f'returned {seq}, expected {model[me_key]} (last used {case["start_seq"]})')
            return
    sim.vl.call(inst.start, sim.app)
    sim.vl.settle()
    trace = []
    auto = {'armed': False, 'n': 0}
    plain_send = sim.face.send

    def send_hook(data):
        plain_send(data)
        if auto['armed']:
            auto['armed'] = False

            def pub():
                inst.new_data()
                auto['n'] += 1
            sim.vl.loop.call_soon(pub)
    sim.face.send = send_hook
    mstate = 'steady'    # the model's own view: 'steady' | 'sup' (a suppression period is running)
    sup = None           # merge of the vectors heard during the running suppression period
    sup_heard_n = 0
    sup_start = 0.0
    if nz_(inst.local_sv) != {k_: v for k_, v in model.items() if v > 0}:
        r.bad('C18/local-vector-after-start', f'{dict(inst.local_sv)} != {model}')
        return

    def emitted_since(n0):
        out = []
        for w in sim.face.sent[n0:]:
            if net.outer_type(w) != 5:
                continue
            try:
                nm = P.strict_interest(w)['name']
            except T.Malformed:
                r.bad('C18/emitted-interest-malformed', w.hex()[:100])
                continue
            if nm[:len(BASE)] == BASE and len(nm) == len(BASE) + 2:
                try:
                    out.append(decode_sv_comp(nm[len(BASE)]))
                except (T.Malformed, KeyError) as e:
                    r.bad('C18/emitted-vector-malformed', f'{e} {nm[len(BASE)].hex()}')
        return out

    def nz(d):
        """A vector entry with sequence number 0 says the same as no entry."""
        return {k_: v for k_, v in d.items() if v > 0}

    def local_now():
        return nz({bytes(k): v for k, v in inst.local_sv.items()})

    def check_local(where):
        got = local_now()
        if got != {k: v for k, v in model.items()}:
            return got
        return None

    for op in case['ops']:
        k = op['op']
        n_sent = len(sim.face.sent)
        n_missing = len(missing)
        before = dict(model)
        state_before = inst.state
        if k == 'recv':
            entries = []
            overclaim = False
            malformed = False
            for nid, mode, val, bad in op['entries']:
                cur = model.get(node_key(nid), 0)
                seq = max(0, cur + val) if mode == 'rel' else max(0, val)
                if bad == 'noseq':
                    entries.append((nid, None))
                    malformed = True
                elif bad == 'noid':
                    entries.append((None, seq))
                    malformed = True
                else:
                    entries.append((nid, seq))
                    if nid == 'me' and seq > model[me_key]:
                        overclaim = True
            fl = tuple(op.get('flags', ()))
            broken = bool(fl) or not entries
            if overclaim:
                flags.add('overclaim')
            if malformed or broken:
                flags.add('malformed')
            valid = {}
            for nid, seq in entries:
                if nid is not None and seq is not None:
                    valid[node_key(nid)] = seq        # later entries for the same id win (dict semantics of a vector)
            # allowed results
            allowed = []
            if broken or overclaim:
                allowed = [nz(model)]
            else:
                merged = dict(model)
                for key, seq in valid.items():
                    merged[key] = max(merged.get(key, 0), seq)
                allowed = [nz(merged)]
                if malformed:
                    allowed.append(nz(model))       # ignoring the whole vector is fine too
            if op['via'] == 'receive' and op.get('stop_during') and case.get('awaiting_validator') and mstate == 'steady' \
                    and inst.state == SvsState.SyncSteady:
                # the application leaves the group while this sync Interest is still with the validator, and joins again:
                # the vector is either ignored entirely or merged AND announced to the application
                wire_ = sync_interest(entries, fl)

                def deliver_and_stop():
                    lp = asyncio.get_running_loop()
                    lp.create_task(sim.app.face.callback(5, wire_))
                    lp.call_soon(inst.stop)
                sim.vl.call(deliver_and_stop)
                sim.vl.settle()
                sim.vl.call(inst.start, sim.app)
                sim.vl.settle()
                allowed.append(nz(model))
                flags.add('stopped-during-validation')
            elif op['via'] == 'receive':
                sim.deliver(sync_interest(entries, fl), 'task')
            else:
                comp = sv_component(entries, fl)
                name = BASE + [comp, T.enc_tlv(2, b'\x00' * 32)]

                def call():
                    try:
                        inst.sync_handler([memoryview(c) for c in name], b'', lambda d: True, {})
                    except Exception as e:
                        sim.receive_errors.append(exc_site(e) + f': {e!r}'[:200])
                sim.vl.call(call)
                sim.vl.settle()
            errs = [e_ for e_ in sim.vl.collect_errors() if e_['type'] != '_CbBoom']
            if any('_CbBoom' in e_ for e_ in sim.receive_errors):
                flags.add('callback-raised')
                sim.receive_errors[:] = [e_ for e_ in sim.receive_errors if '_CbBoom' not in e_]
            if sim.receive_errors or errs:
                what = sim.receive_errors[0].split(':')[0] if sim.receive_errors else errs[0]['type']
                kind = 'malformed-vector' if (malformed or broken) else 'overclaim' if overclaim else 'valid-vector'
                r.bad(f'C18/handler-raised/{kind}/{what}', f'{(sim.receive_errors or errs)[0]} entries={entries} flags={fl}')
                return
            got = local_now()
            if 'pending' in cb_publishes:
                for a_ in allowed:
                    a_[me_key] = a_.get(me_key, model[me_key]) + 1
                allowed = [nz(a_) for a_ in allowed]
                flags.add('publish-in-callback')
            if got not in allowed:
                if any(got.get(k_, 0) < v for k_, v in before.items()):
                    r.bad('C18/local-vector-decreased', f'{before} -> {got}')
                elif overclaim:
                    r.bad('C18/overclaiming-vector-not-ignored', f'{before} -> {got} entries={entries}')
                elif broken:
                    r.bad('C18/malformed-vector-merged', f'{before} -> {got} entries={entries} flags={fl}')
                else:
                    r.bad('C18/merge-not-entrywise-max', f'{before} + {entries} -> {got}, expected {allowed[0]}')
                return
            published_in_cb = cb_publishes.pop('pending', None)
            me_seq = model[me_key] + (1 if published_in_cb is not None else 0)
            model.clear()
            model.update(got)
            model.setdefault(me_key, me_seq)        # (an own entry of 0 or less does not show in the vector)
            raised = any(got.get(k_, 0) > before.get(k_, 0) for k_ in got if k_ != me_key or published_in_cb is None)
            if published_in_cb is not None:
                em = emitted_since(n_sent)
                if not em or nz(em[-1]) != nz(model):
                    r.bad('C18/publish-in-callback-not-announced', f'published seq {published_in_cb} from the missing-data callback; '
                          f'emitted {em[-1:] or "nothing"}; local {model}')
                    return
                sup = None
                mstate = 'steady'
            cb = len(missing) - n_missing
            if cb != (1 if raised else 0):
                r.bad(f'C18/missing-data-callback/{"not-called" if raised else "spurious"}', f'{cb} calls; {before} -> {got}')
                return
            accepted = (not broken and not overclaim and got == allowed[0]) and bool(valid)
            # suppression bookkeeping: WHEN a period starts is the library's decision (the property does not say); from then on
            # the model owns the period: it lasts 0.1..0.3 s (suppression_interval 0.2 +- 50 %) unless a publication ends it
            if mstate == 'steady' and inst.state == SvsState.SyncSuppression and published_in_cb is None:
                mstate = 'sup'
                sup = dict(valid) if accepted else {}
                sup_heard_n = 1
                sup_start = sim.vl.clock.t
            elif mstate == 'sup' and accepted:
                for key, seq in valid.items():
                    sup[key] = max(sup.get(key, 0), seq)
                sup_heard_n += 1
            trace.append('r' if not (malformed or broken or overclaim) else 'm')
        elif k == 'publish':
            others = [(nid, model[node_key(nid)]) for nid in ('n1', 'n2', 'n3') if model.get(node_key(nid))]
            if op.get('then_vector') and others and mstate == 'steady' and inst.state == SvsState.SyncSteady:
                # a peer's vector that is up to date on every node it mentions (and does not mention this node) is handled
                # in the same loop iteration, right after the publication: the publication is still announced promptly
                comp_ = sv_component(others)
                name_ = BASE + [comp_, T.enc_tlv(2, b'\x00' * 32)]
                box_ = {}

                def both():
                    box_['seq'] = inst.new_data()
                    inst.sync_handler([memoryview(c) for c in name_], b'', lambda d: True, {})
                sim.vl.call(both)
                seq = box_['seq']
                flags.add('publish-then-vector-in-one-iteration')
            else:
                seq = sim.vl.call(inst.new_data)
            sim.vl.settle()
            model[me_key] = model[me_key] + 1
            if seq != model[me_key] or local_now() != nz(model):
                r.bad('C18/publish-sequence', f'returned {seq}, local {local_now()}, expected {model}')
                return
            em = emitted_since(n_sent)
            if not em:
                r.bad('C18/publish-not-announced', f'no sync Interest before time advanced; state={inst.state}')
                return
            if nz(em[-1]) != nz(model):
                r.bad('C18/announced-vector-differs', f'{em[-1]} != {model}')
                return
            sup = None
            mstate = 'steady'
            trace.append('p')
        elif k == 'restart':
            # the application leaves the sync group and joins again with the same instance (outside suppression periods: whether a
            # running period survives a restart is not specified)
            if mstate != 'steady' or inst.state != SvsState.SyncSteady:
                continue
            try:
                if op['gap']:
                    sim.vl.call(inst.stop)
                    sim.vl.settle()
                    sim.vl.call(inst.start, sim.app)
                else:
                    def both():      # back to back, without the loop running in between
                        inst.stop()
                        inst.start(sim.app)
                    sim.vl.call(both)
                sim.vl.settle()
            except Exception as e:
                r.bad(f'C18/restart-raised/{exc_site(e)}', repr(e)[:200])
                return
            flags.add('restart')
            if local_now() != nz(model):
                r.bad('C18/local-vector-changed-by-restart', f'{local_now()} != {model}')
                return
            trace.append('T')
        elif k == 'start_again':
            # start() on an instance that is already running (e.g. called from an after-connect hook on every reconnect): it is
            # refused, and a refused call changes nothing
            if not inst.running:
                continue
            try:
                sim.vl.call(inst.start, sim.app)
                r.bad('C18/start-on-running-instance-accepted', '')
                return
            except RuntimeError:
                pass
            except Exception as e:
                r.bad(f'C18/start-on-running-instance-raised/{exc_site(e)}', repr(e)[:200])
                return
            sim.vl.settle()
            flags.add('refused-start')
            if local_now() != nz(model):
                r.bad('C18/local-vector-changed-by-refused-start', f'{local_now()} != {model}')
                return
            trace.append('s')
        elif k == 'adv':
            now = sim.vl.clock.t
            target = inst.next_sync_timing - svs_sync.time.time() if inst.next_sync_timing else 0
            dt = {'0': 0.0, '1ms': 0.001, 'before': max(0.0, target - 0.001), 'at': max(0.0, target),
                  'after': max(0.0, target + 0.001)}[op['how']]
            dt = min(dt, 40.0)
            auto['armed'] = bool(op.get('pub_on_emit'))
            sim.vl.advance(dt)
            auto['armed'] = False
            old_model = dict(model)
            if auto['n']:
                # the application published in the loop iteration right after a sync Interest left the face
                model[me_key] += auto['n']
                auto['n'] = 0
                flags.add('publish-right-after-emission')
                sim.vl.settle()
            errs = sim.vl.collect_errors()
            if errs:
                r.bad(f'C18/timer-task-failed/{errs[0]["type"]}', str(errs[0])[:300])
                return
            em = emitted_since(n_sent)
            for v in em:
                if nz(v) != nz(model) and nz(v) != nz(old_model):
                    r.bad('C18/announced-vector-differs', f'{v} != {model}')
                    return
            if model != old_model:
                if not em or nz(em[-1]) != nz(model):
                    r.bad('C18/publish-right-after-emission-not-announced', f'emitted {em}; local {model}')
                    return
                mstate, sup = 'steady', None
            t_end = sim.vl.clock.t
            ended = mstate == 'sup' and (t_end > sup_start + 0.3 + 1e-6 or
                                         (t_end >= sup_start + 0.1 - 1e-6 and inst.state == SvsState.SyncSteady))
            if ended:
                need = any(v > sup.get(k_, 0) for k_, v in model.items())
                if sup_heard_n >= 2:
                    flags.add('suppression>=2')
                flags.add('suppression-end-needed' if need else 'suppression-end-silent')
                if need and not em:
                    r.bad('C18/suppression-end/needed-announcement-missing', f'local {model} heard-merge {sup}')
                    return
                if not need and em and t_end < sup_start + 27.0:     # (the periodic announcement comes 27..33 s after the period)
                    r.bad('C18/suppression-end/unneeded-announcement', f'local {model} heard-merge {sup}')
                    return
                sup = None
                mstate = 'steady'
                trace.append('S')
            else:
                trace.append('a')
            if local_now() != nz(model):
                r.bad('C18/local-vector-changed-by-timer', f'{local_now()} != {model}')
                return
    sim.vl.call(inst.stop)
    nontrivial = bool(flags)
    r.key = (''.join(trace)[:30], tuple(sorted(flags))) if nontrivial else None
    r.classes = tuple(sorted(flags)) + (f'len:{min(len(trace) // 5 * 5, 20)}',)


_ENTRY = st.tuples(st.sampled_from(['n1', 'n2', 'n3', 'me', 'n1']), st.sampled_from(['rel', 'rel', 'rel', 'abs']),
                   st.sampled_from([-2, -1, 0, 1, 1, 2, 5]), st.sampled_from([None] * 12 + ['noseq', 'noid'])).map(list)


def _ops():
    recv = st.fixed_dictionaries({'op': st.just('recv'), 'entries': st.lists(_ENTRY, min_size=0, max_size=4),
                                  'via': st.sampled_from(['receive', 'handler']), 'stop_during': st.sampled_from([False, False, False, True]),
                                  'flags': st.sampled_from([[]] * 10 + [['truncated'], ['wrong-type'], ['bad-width']])})
    publish = st.fixed_dictionaries({'op': st.just('publish'), 'then_vector': st.sampled_from([False, False, True])})
    restart = st.fixed_dictionaries({'op': st.just('restart'), 'gap': st.booleans()})
    adv = st.fixed_dictionaries({'op': st.just('adv'), 'how': st.sampled_from(['0', '1ms', 'before', 'at', 'after', 'after']),
                                 'pub_on_emit': st.sampled_from([False, False, False, True])})
    again = st.just({'op': 'start_again'})
    free = st.lists(st.one_of(recv, recv, recv, recv, publish, publish, adv, adv, adv, restart, again), min_size=2, max_size=25)
    anyop = st.one_of(recv, publish, adv, restart, again)

    @st.composite
    def template(draw):
        """A suppression period that is cut short by a publication, followed by a lagging vector and the end of the next
        suppression period - too rare in free histories (needs four specific steps in order)."""
        node = draw(st.sampled_from(['n1', 'n2', 'n3']))
        up = draw(st.sampled_from([2, 5]))
        via = draw(st.sampled_from(['receive', 'handler']))
        core = [{'op': 'recv', 'entries': [[node, 'rel', up, None], ['me', 'rel', 0, None]], 'via': via, 'flags': []},
                {'op': 'adv', 'how': draw(st.sampled_from(['0', '1ms']))},
                {'op': 'recv', 'entries': [[node, 'rel', -1, None], ['me', 'rel', draw(st.sampled_from([0, -1])), None]], 'via': via,
                 'flags': []},
                {'op': 'publish'},
                {'op': 'recv', 'entries': [[node, 'rel', draw(st.sampled_from([-1, -2])), None], ['me', 'rel', 0, None]], 'via': via,
                 'flags': []},
                {'op': 'adv', 'how': 'after'}]
        k = draw(st.integers(0, 2))
        core = core[k:] if k < 2 else core
        return draw(st.lists(anyop, max_size=3)) + core + draw(st.lists(anyop, max_size=4))
    @st.composite
    def template2(draw):
        """A vector that is ignored for over-claiming own data is heard again, byte for byte, after this node has published
        that data: now it must be merged (and the callback fired)."""
        node = draw(st.sampled_from(['n1', 'n2']))
        via = draw(st.sampled_from(['receive', 'handler']))
        vec = {'op': 'recv', 'entries': [[node, 'abs', draw(st.sampled_from([3, 7])), None], ['me', 'abs', 9, None]], 'via': via, 'flags': []}
        return draw(st.lists(anyop, max_size=2)) + [vec] + [{'op': 'publish'}] * 9 + [dict(vec)] + draw(st.lists(anyop, max_size=3))
    @st.composite
    def template3(draw):
        """A suppression period that ends silently (a vector as new as the local one was heard in it), then a lagging vector
        and the end of the period it opens: an announcement is due."""
        via = draw(st.sampled_from(['receive', 'handler']))
        everyone = [[n, 'rel', 0, None] for n in ('n1', 'n2', 'n3', 'me')]
        lag = {'op': 'recv', 'entries': [['me', 'rel', -1, None]], 'via': via, 'flags': []}
        core = [{'op': 'publish'}, {'op': 'adv', 'how': '1ms'}, dict(lag),
                {'op': 'recv', 'entries': everyone, 'via': via, 'flags': []},
                {'op': 'adv', 'how': 'after'}] + draw(st.lists(adv, max_size=1)) + [dict(lag), {'op': 'adv', 'how': 'after'}]
        pre = draw(st.lists(anyop, max_size=2))
        if draw(st.booleans()):
            pre = pre + [{'op': 'restart', 'gap': draw(st.booleans())}]      # ... on an instance that was stopped and started again
        return pre + core + draw(st.lists(anyop, max_size=3))
    @st.composite
    def template4(draw):
        """Three (or more) vectors heard within ONE suppression period: lagging, covering, lagging - whatever the order, the
        merge of what was heard covers the local vector, so the period ends silently."""
        via = draw(st.sampled_from(['receive', 'handler']))
        everyone = {'op': 'recv', 'entries': [[n, 'rel', 0, None] for n in ('n1', 'n2', 'n3', 'me')], 'via': via, 'flags': []}
        lag = {'op': 'recv', 'entries': [['me', 'rel', draw(st.sampled_from([-1, -2])), None]], 'via': via, 'flags': []}
        heard = draw(st.sampled_from([[lag, everyone, lag], [lag, everyone, lag, lag], [everyone, lag, lag], [lag, lag, everyone, lag]]))
        core = [{'op': 'publish'}, {'op': 'adv', 'how': '1ms'}]
        for i, v in enumerate(heard):
            core.append(dict(v))
            if i + 1 < len(heard) and draw(st.booleans()):
                core.append({'op': 'adv', 'how': draw(st.sampled_from(['0', '1ms']))})
        core.append({'op': 'adv', 'how': 'after'})
        return draw(st.lists(anyop, max_size=2)) + core + draw(st.lists(anyop, max_size=3))
    return st.one_of(free, free, free, template(), template2(), template3(), template4())


def _case():
    return st.fixed_dictionaries({'start_seq': st.sampled_from([0, 1, 2, 3, 0, 1, -1]), 'awaiting_validator': st.booleans(), 'publish_before_start': st.sampled_from([0, 0, 0, 1, 2]), 'publish_in_callback': st.sampled_from([False, False, True]), 'callback_raises': st.sampled_from([False, False, False, True]), 'callback_shape': st.sampled_from(['function', 'function', 'partial', 'object', 'bound']), 'jitter': st.lists(st.integers(0, 65535), min_size=1, max_size=4),
                                  'ops': _ops()})


SUBCHECKS = {
    'histories': SubCheck(run_case, strategy=lambda tier: _case(), examples={'quick': 1500, 'thorough': 50000}),
}
