"""C04 - longest-prefix dispatch, attach/detach, reply deadline (appv2, legacy app, Dispatcher)."""
from hypothesis import strategies as st

from ndn.app_support.dispatcher import Dispatcher
from ndn.encoding import InterestParam

from .. import pkt as P
from ..core import Result, SubCheck
from ..refs import tlv as T
from ..sim import net
from ..sim.appsim import AppSim, exc_site

PROPERTY_ID = 'C04'
RULE = ('Histories of attach / duplicate attach / detach / detach-absent / interest / advance / reply / (appv2) forwarder register+unregister over three subjects sharing one '
        'dict model: appv2 attach_handler/detach_handler (+reply callback), legacy set_interest_filter/unset_interest_filter, '
        'Dispatcher.register/unregister/dispatch. Prefixes from a small component alphabet (generic, typed, empty component; root '
        'included) attached through 11 input representations (4 of them in mutable buffers the caller overwrites right after the call), with '
        'no / accepting / rejecting / slow (30 ms) accepting validator; plain and parameterised Interests. Oracle: handler invoked == handler at the longest attached prefix, '
        'exactly once, with the Interest name; duplicate attach raises ValueError and changes nothing; detached handlers never fire; '
        'v2 reply: bytes on the face iff now <= arrival+lifetime (arrival = delivery to the application, before any validation; default 4000 ms; +-1 ms at the boundary both accepted) and '
        'bool(reply()) == sent. Non-trivial = >=2 nested prefixes attached at an Interest, or a detach earlier, or a reply after '
        'the deadline; distinct key = (subject, abstract trace).')
ASSUMPTIONS = [
    'detaching a prefix that is not attached may raise KeyError (the property is silent); state must be unchanged',
    'reply exactly at the deadline instant: either behaviour accepted',
]

ALPHABET = [[8, '61'], [8, '62'], [32, '6b'], [8, ''], [1, '5a' * 32]]     # incl. an implicit-digest component


def _comps(p):
    return [T.enc_tlv(c[0], bytes.fromhex(c[1])) for c in p]


def _history(subject):
    pref = st.lists(st.sampled_from(ALPHABET), min_size=0, max_size=3)
    attach = st.fixed_dictionaries({'op': st.just('attach'), 'p': pref, 'rep': st.integers(0, 14),
                                    'val': st.sampled_from([None, None, 'pass', 'fail', 'slow-pass']),
                                    # the validator in any legal form of "a callable returning an awaitable"
                                    'vshape': st.sampled_from([None, None, None, 'lambda', 'object', 'async-object', 'partial', 'future', 'wrapped', 'bound'])})
    attach_dup = st.fixed_dictionaries({'op': st.just('attach'), 'k': st.integers(0, 7), 'rep': st.integers(0, 6),
                                        'val': st.sampled_from(['pass', 'fail', None])})
    detach = st.fixed_dictionaries({'op': st.just('detach'), 'p': pref, 'rep': st.integers(0, 6)})
    detach_k = st.fixed_dictionaries({'op': st.just('detach'), 'k': st.integers(0, 7), 'rep': st.integers(0, 6)})
    interest = st.fixed_dictionaries({'op': st.just('interest'), 'n': st.lists(st.sampled_from(ALPHABET), min_size=0, max_size=4),
                                      'life': st.sampled_from([None, 0, 1, 5, 50, 4000]), 'mode': st.sampled_from(['await', 'task'])})
    shutdown = st.just({'op': 'shutdown'})
    interest_k = st.fixed_dictionaries({'op': st.just('interest'), 'under': st.integers(0, 7), 'params': st.sampled_from([False, False, True]),
                                        'ext': st.lists(st.sampled_from(ALPHABET), max_size=2),
                                        'life': st.sampled_from([None, 0, 1, 5, 50, 4000]), 'mode': st.sampled_from(['await', 'task'])})
    adv = st.fixed_dictionaries({'op': st.just('adv'), 'ms': st.sampled_from([0, 1, 2, 4, 5, 6, 49, 50, 51, 3999, 4000, 4001])})
    reply = st.fixed_dictionaries({'op': st.just('reply'), 'k': st.integers(0, 7)})
    ops = [attach, attach, attach_dup, detach, detach_k, interest, interest_k, interest_k, adv]
    if subject == 'legacy':
        ops += [st.fixed_dictionaries({'op': st.just('fwd-legacy'), 'k': st.integers(0, 7),
                                       'reply': st.sampled_from(['ok-body', 'err-body', 'nack', 'silence', 'err-nobody'])})]
    if subject == 'v2':
        fwd = st.fixed_dictionaries({'op': st.just('fwd'), 'which': st.sampled_from(['register', 'unregister', 'unregister']),
                                     'k': st.integers(0, 7)})
        ops += [reply, reply, adv, fwd]
        tail = st.one_of(st.just([]), st.just([]), st.tuples(shutdown, st.lists(reply, min_size=1, max_size=3)).map(lambda t: [t[0]] + t[1]))
        free = st.tuples(st.lists(attach, min_size=1, max_size=4), st.lists(st.one_of(*ops), min_size=2, max_size=22), tail).map(
            lambda t: t[0] + t[1] + t[2])

        @st.composite
        def late_reply(draw):
            """A parameterised Interest whose validator takes 30 ms, answered between (arrival + lifetime) and (end of validation +
            lifetime): the lifetime counts from the arrival - too rare a conjunction in free histories."""
            p = draw(pref)
            life = draw(st.sampled_from([5, 50]))
            core = [{'op': 'attach', 'p': p, 'rep': draw(st.sampled_from([0, 5, 10])), 'val': 'slow-pass'},
                    {'op': 'interest', 'under': 0, 'params': True, 'ext': draw(st.lists(st.sampled_from(ALPHABET[:3]), max_size=1)),
                     'life': life, 'mode': draw(st.sampled_from(['await', 'task']))},
                    {'op': 'adv', 'ms': draw(st.sampled_from([life - 1 - 31 if life > 32 else 0, life + 1 - 31 if life > 31 else 0, life, 49, 50, 51]))},
                    {'op': 'reply', 'k': 0}]
            return core + draw(st.lists(st.one_of(*ops), max_size=5))
        return st.one_of(free, free, free, late_reply())
    return st.tuples(st.lists(attach, min_size=1, max_size=4), st.lists(st.one_of(*ops), min_size=2, max_size=22)).map(
        lambda t: t[0] + t[1])


def _case(subject):
    return st.fixed_dictionaries({'subject': st.just(subject), 'ops': _history(subject)})


def run_case(case):
    subj = case['subject']
    r = Result()
    sim = None
    if subj in ('v2', 'legacy'):
        sim = AppSim(subj)
        sim.start()
    try:
        _run(subj, sim, case['ops'], r)
    finally:
        if sim is not None:
            sim.finish()
            sim.close()
    return r


def _run(subj, sim, ops, r):
    disp = Dispatcher() if subj == 'dispatcher' else None
    model = {}         # tuple(comps) -> handler id
    validators = {}    # tuple(comps) -> None | 'pass' | 'fail'   (v2: validator attached with the handler)
    down = False
    calls = []         # (hid, name, reply, arrival_ms, lifetime)
    gen = [0]
    trace = []
    flags = set()
    attached_order = []

    class _Collector(list):
        """A handler that is a callable OBJECT - here a list collecting what it was called with, so bool(handler) is False
        while it is empty."""

        def __init__(self, fn):
            super().__init__()
            self.fn = fn

        def __call__(self, *a, **k):
            return self.fn(*a, **k)

    class _Boom(Exception):
        """raised by a handler AFTER it has noted the Interest: the application's bug is the application's business - reception goes on"""

    def make_handler(hid, as_object=False, as_method=False, raises=False):
        if subj == 'v2':
            def h(name, app_param, reply, context):
                calls.append({'hid': hid, 'name': [bytes(c) for c in name], 'reply': reply, 'ctx': context,
                              't': sim.vl.now_ms(), 'replied': 0})
                if raises:
                    raise _Boom(hid)
        else:
            def h(name, param, app_param):
                calls.append({'hid': hid, 'name': [bytes(c) for c in name], 't': sim.vl.now_ms() if sim else 0})
                if raises:
                    raise _Boom(hid)
        if as_method:
            # a bound method of a producer object that nobody else keeps a reference to ("Producer(app)" fire and forget)
            class _Producer:
                def on_interest(self, *a, **k):
                    return h(*a, **k)
            return _Producer().on_interest
        return _Collector(h) if as_object else h

    def _mutable_arg(key, rep):
        """rep 7..9: the caller's name lives in mutable buffers which the caller overwrites right after the call"""
        bufs = [bytearray(c) for c in key]
        if rep == 7:
            return bufs, bufs
        if rep == 8:
            return [memoryview(b) for b in bufs], bufs
        whole = bytearray(T.enc_tlv(7, b''.join(key)))
        return (memoryview(whole) if rep == 9 else whole), [whole]

    def _scribble(bufs):
        for b in bufs:
            for i in range(len(b)):
                b[i] = 0x5a

    def do_attach(key, rep, val=None, vshape=None):
        scratch = None
        via_route = False
        if rep >= 11:
            # one-shot forms of the prefix (generator / iterator), and the route() decorator of appv2
            via_route = rep in (13, 14) and subj == 'v2'
            arg = (c for c in list(key)) if rep in (11, 13) else iter(list(key))
        elif rep >= 7:
            arg, scratch = _mutable_arg(key, rep)
        else:
            arg = P.name_in_rep([[T.read_num(c, 0, len(c))[0], bytes(c[T.read_tlv(c, 0, len(c))[2]:]).hex()] for c in key], rep)
        gen[0] += 1
        h = make_handler(gen[0], as_object=rep % 3 == 2 and val is None, as_method=rep % 5 == 1,
                         raises=rep % 7 == 3 and subj != 'dispatcher')
        if rep % 7 == 3 and subj != 'dispatcher':
            flags.add('raising-handler')
        if subj == 'v2':
            from ndn.types import ValidResult
            validator = None
            if val is not None:
                async def validator(_n, _s, _c, val=val):
                    if val == 'slow-pass':
                        import asyncio
                        await asyncio.sleep(0.03)
                    return ValidResult.FAIL if val == 'fail' else ValidResult.PASS
                if vshape:
                    from ..sim.appsim import shape_callable
                    validator = shape_callable(validator, vshape)
                    flags.add('validator-shape')
            try:
                if via_route:
                    sim.vl.call(lambda: sim.app.route(arg, validator)(h))
                else:
                    sim.vl.call(sim.app.attach_handler, arg, h, validator)
            finally:
                if scratch:
                    _scribble(scratch)
            return gen[0]
        try:
            if subj == 'legacy':
                sim.vl.call(sim.app.set_interest_filter, arg, h)
            else:
                disp.register(arg, h)
        finally:
            if scratch:
                _scribble(scratch)
        return gen[0]

    def do_detach(key, rep):
        arg = P.name_in_rep([[T.read_num(c, 0, len(c))[0], bytes(c[T.read_tlv(c, 0, len(c))[2]:]).hex()] for c in key], rep)
        if subj == 'v2':
            sim.vl.call(sim.app.detach_handler, arg)
        elif subj == 'legacy':
            sim.vl.call(sim.app.unset_interest_filter, arg)
        else:
            disp.unregister(arg)

    def lookup(name):
        for k in range(len(name), -1, -1):
            if tuple(name[:k]) in model:
                return model[tuple(name[:k])], k
        return None, None

    import gc
    for op in ops:
        k = op['op']
        if k == 'interest':
            gc.collect()        # (whatever the library does not hold on to is gone by now)
        if k == 'attach':
            if 'k' in op:
                if not attached_order:
                    continue
                key = attached_order[op['k'] % len(attached_order)]
            else:
                key = tuple(_comps(op['p']))
            try:
                hid = do_attach(list(key), op['rep'], op.get('val'), op.get('vshape'))
                raised = None
            except ValueError as e:
                raised = e
            except Exception as e:
                r.bad(f'C04/{subj}/attach-raised/{exc_site(e)}', f'{e!r} prefix={[bytes(c).hex() for c in key]} rep={op["rep"]}')
                return
            if key in model:
                trace.append('A!')
                if raised is None:
                    r.bad(f'C04/{subj}/duplicate-attach-accepted', f'prefix {[bytes(c).hex() for c in key]} rep={op["rep"]}')
                    return
            else:
                trace.append('A')
                if raised is not None:
                    r.bad(f'C04/{subj}/attach-refused', f'{raised!r} prefix {[bytes(c).hex() for c in key]} rep={op["rep"]}')
                    return
                model[key] = hid
                validators[key] = op.get('val')
                attached_order.append(key)
        elif k == 'detach':
            if 'k' in op:
                if not attached_order:
                    continue
                key = attached_order[op['k'] % len(attached_order)]
            else:
                key = tuple(_comps(op['p']))
            try:
                do_detach(list(key), op['rep'])
                raised = None
            except KeyError as e:
                raised = e
            except Exception as e:
                r.bad(f'C04/{subj}/detach-raised/{exc_site(e)}', f'{e!r} prefix={key}')
                return
            if key in model:
                trace.append('X')
                flags.add('detach')
                if raised is not None:
                    r.bad(f'C04/{subj}/detach-attached-raised', f'{raised!r}')
                    return
                del model[key]
                validators.pop(key, None)
            else:
                trace.append('x')
        elif k == 'interest':
            if 'under' in op:
                if not attached_order:
                    continue
                name = list(attached_order[op['under'] % len(attached_order)]) + _comps(op['ext'])
            else:
                name = _comps(op['n'])
            before = len(calls)
            want, depth = lookup(name)
            nested = sum(1 for j in range(len(name) + 1) if tuple(name[:j]) in model)
            if nested >= 2:
                flags.add('nested')
            if subj == 'dispatcher':
                try:
                    ret = disp.dispatch(name, InterestParam(lifetime=op['life']), None)
                except Exception as e:
                    r.bad(f'C04/{subj}/dispatch-raised/{exc_site(e)}', f'{e!r}')
                    return
                if bool(ret) != (want is not None):
                    r.bad(f'C04/{subj}/dispatch-return', f'returned {ret} but handler expected={want}')
            else:
                params = bool(op.get('params')) and subj == 'v2'
                wire = net.interest_wire(name, lifetime=op['life'], nonce=7, app_param=b'p' if params else None)
                if params and want is not None:
                    name = name + [T.enc_tlv(2, P.strict_interest(wire)['digest_comp'])]
                    if validators.get(tuple(name[:depth])) not in ('pass', 'slow-pass'):
                        want = None       # no validator / rejecting validator: dropped
                        flags.add('validator-drop')
                if down:
                    continue
                t_arrival = sim.vl.now_ms()
                sim.deliver(wire, op['mode'])
                sim.vl.advance(0.031 if params and want is not None and validators.get(tuple(name[:depth])) == 'slow-pass' else 0)
                if sim.receive_errors:
                    r.bad(f'C04/{subj}/receive-raised/{sim.receive_errors[0].split(":")[0]}', sim.receive_errors[0])
                    return
            new = calls[before:]
            for c in new:
                c['life'] = op['life'] if op['life'] is not None else 4000
                if subj != 'dispatcher':
                    c['t'] = t_arrival      # the lifetime counts from the Interest's arrival, not from the end of its validation
            got = [c['hid'] for c in new]
            trace.append('I' if want is not None else 'i')
            if want is None:
                if got:
                    r.bad(f'C04/{subj}/delivered-without-match', f'name {[c.hex() for c in name]} -> handlers {got}; attached {len(model)}')
            elif got != [want]:
                kind = 'not-delivered' if not got else 'delivered-twice' if got == [want, want] else 'wrong-handler'
                r.bad(f'C04/{subj}/{kind}', f'name {[c.hex() for c in name]}: handlers {got}, expected [{want}] (longest prefix depth {depth}); '
                      f'attached {[[c.hex() for c in key] for key in model]}')
            elif new[0]['name'] != name:
                r.bad(f'C04/{subj}/handler-got-wrong-name', f'{new[0]["name"]} != {name}')
        elif k == 'fwd':
            # appv2 only: register() / unregister() talk to the forwarder about a route; they are separate from attaching and
            # detaching handlers and leave the dispatch table alone
            if subj != 'v2' or down:
                continue
            key = attached_order[op['k'] % len(attached_order)] if attached_order and op['k'] < 6 else tuple(_comps([ALPHABET[0]]))
            try:
                ret = sim.vl.run(getattr(sim.app, op['which'])(list(key)))
            except Exception as e:
                r.bad(f'C04/v2/{op["which"]}-raised/{exc_site(e)}', repr(e))
                return
            sim.vl.settle()
            if ret is not True:
                r.bad(f'C04/v2/{op["which"]}-returned/{ret!r}', 'the registerer answered True')
            flags.add('forwarder-command')
            trace.append('F' if op['which'] == 'register' else 'U')
        elif k == 'fwd-legacy':
            # legacy only: register(P, None) - "only send the register command to the forwarder, without setting any callback" -
            # for a prefix that HAS a handler already, answered by success or by a failure (status 403, Nack, silence): whatever
            # the forwarder says, the dispatch table is none of its business
            if subj != 'legacy' or down or not attached_order:
                continue
            import asyncio as _aio
            from .c17_registration import reply_wire as _reply_wire
            from .. import pkt as _P
            key = attached_order[op['k'] % len(attached_order)]
            if not key:
                continue
            before = len(sim.face.sent)

            async def _go():
                return _aio.get_running_loop().create_task(sim.app.register(list(key), None))
            try:
                t_reg = sim.vl.run(_go())
                sim.vl.settle()
                cmds = [bytes(w_) for w_ in sim.face.sent[before:] if net.outer_type(bytes(w_)) == 5]
                if cmds:
                    ans = _reply_wire(op['reply'], cmds[0], _P.strict_interest(cmds[0])['name'], list(key))
                    if ans is not None:
                        sim.deliver(ans, 'task')
                sim.vl.advance(1.05 if op['reply'] == 'silence' else 0.01)
                if not t_reg.done():
                    sim.vl.advance(1.1)
                ret = t_reg.result() if t_reg.done() else 'pending'
            except Exception as e:
                r.bad(f'C04/legacy/register-without-callback-raised/{exc_site(e)}', repr(e))
                return
            want_ret = op['reply'] in ('ok-body', 'ok-nobody')
            if ret is not want_ret:
                r.bad(f'C04/legacy/register-without-callback-returned/{ret!r}/{op["reply"]}', '')
                return
            flags.add('forwarder-command' if want_ret else 'forwarder-command-refused')
            trace.append('F' if want_ret else 'F!')
        elif k == 'adv':
            if sim is not None and not down:
                sim.vl.advance(op['ms'] / 1000)
                trace.append('a')
        elif k == 'shutdown':
            if sim is not None and not down:
                sim.shutdown()
                down = True
                trace.append('S')
        elif k == 'reply' and down:
            held = [c for c in calls if 'reply' in c]
            if not held:
                continue
            c = held[op['k'] % len(held)]
            before = len(sim.face.sent)
            flags.add('reply-after-face-down')
            try:
                ret = sim.vl.call(c['reply'], net.data_wire(c['name'], content=b'late'))
            except Exception as e:
                ret = None
                if type(e).__name__ != 'NetworkError':
                    r.bad(f'C04/v2/reply-after-face-down/raised/{type(e).__name__}', repr(e))
                    return
            if len(sim.face.sent) != before:
                r.bad('C04/v2/reply-after-face-down/sent', '')
            elif ret:
                r.bad('C04/v2/reply-return-untruthful/face-down', f'returned {ret!r} although the face is down and nothing was sent')
            trace.append('r')
        elif k == 'reply':
            held = [c for c in calls if 'reply' in c]
            if not held:
                continue
            c = held[op['k'] % len(held)]
            now = sim.vl.now_ms()
            deadline = c['t'] + c['life']
            data = net.data_wire(c['name'], content=b'reply%d' % c['replied'])
            c['replied'] += 1
            before = len(sim.face.sent)
            try:
                ret = sim.vl.call(c['reply'], data)
            except Exception as e:
                r.bad(f'C04/v2/reply-raised/{exc_site(e)}', repr(e))
                return
            sent = sim.face.sent[before:]
            if now > deadline + 1:
                flags.add('late-reply')
            must_send = now < deadline
            must_not = now > deadline
            trace.append('R' if not must_not else 'r')
            if must_send and sent != [data]:
                r.bad('C04/v2/reply-not-sent-in-time', f'now={now} deadline={deadline} sent={[s.hex()[:40] for s in sent]}')
            if must_not and sent:
                r.bad('C04/v2/reply-sent-after-deadline', f'now={now} deadline={deadline}')
            if sent and sent != [data]:
                r.bad('C04/v2/reply-bytes-altered', f'{[s.hex()[:60] for s in sent]}')
            if bool(ret) != bool(sent):
                r.bad(f'C04/v2/reply-return-untruthful/returned={ret!r}/sent={bool(sent)}', f'now={now} deadline={deadline}')
    if sim is not None:
        # (a handler's own exception ends up with the loop's exception handler - not the library's fault)
        errs = [e for e in sim.vl.collect_errors() if e['type'] != '_Boom']
        if errs:
            r.bad(f'C04/{subj}/unhandled-loop-error/{errs[0]["type"]}', str(errs[:2]))
    nontrivial = bool(flags) and any(t in ('I', 'i') for t in trace)
    r.key = (subj, ''.join(trace)[:28], tuple(sorted(flags))) if nontrivial else None
    r.classes = (subj,) + tuple(sorted(flags)) + (('nontrivial',) if nontrivial else ())


def _sessions_case():
    pref = st.lists(st.sampled_from(ALPHABET[:3]), min_size=0, max_size=3)
    how = st.sampled_from(['attach', 'route', 'stack', 'stack'])
    att = st.fixed_dictionaries({'op': st.just('attach'), 'p': pref, 'how': how})
    det = st.fixed_dictionaries({'op': st.just('detach'), 'k': st.integers(0, 5)})
    return st.fixed_dictionaries({
        'subject': st.sampled_from(['v2', 'v2', 'legacy']),
        'pre': st.lists(att, min_size=1, max_size=4),
        'mid': st.lists(st.one_of(att, det), max_size=3),
        'names': st.lists(st.lists(st.sampled_from(ALPHABET[:3]), max_size=4), min_size=2, max_size=6),
        'mode': st.sampled_from(['await', 'task']),
        'connections': st.sampled_from([2, 2, 3])})


def run_sessions(case):
    """Handlers attached BEFORE the application is connected (attach_handler, the route() decorator, route() decorators stacked on
    one function), and an application object that is run again - each time in a fresh event loop - with attach / detach in
    between: on every connection each Interest reaches the handler of the longest attached prefix."""
    subj = case['subject']
    r = Result()
    sim = AppSim(subj)
    model = {}
    order = []
    calls = []
    gen = [0]
    flags = set()
    stacked = {}

    def make(hid):
        if subj == 'v2':
            def h(name, app_param, reply, context):
                calls.append((hid, [bytes(c) for c in name]))
        else:
            def h(name, param, app_param):
                calls.append((hid, [bytes(c) for c in name]))
        return h

    def attach(op):
        key = tuple(_comps(op['p']))
        how = op['how'] if subj == 'v2' else 'attach'
        gen[0] += 1
        hid = gen[0]
        try:
            if how == 'attach':
                if subj == 'v2':
                    sim.vl.call(sim.app.attach_handler, list(key), make(hid))
                else:
                    sim.vl.call(sim.app.set_interest_filter, list(key), make(hid))
            elif how == 'route':
                sim.vl.call(lambda: sim.app.route(list(key))(make(hid)))
            else:
                # @app.route(p2) @app.route(p1) def f(...): one function on several prefixes
                if 'fn' not in stacked:
                    stacked['fn'] = make(hid)
                    stacked['hid'] = hid
                hid = stacked['hid']
                flags.add('stacked-route' if 'used' in stacked else 'route')
                stacked['used'] = True
                stacked['fn'] = sim.vl.call(lambda: sim.app.route(list(key))(stacked['fn']))
            raised = None
        except ValueError as e:
            raised = e
        except Exception as e:
            r.bad(f'C04/{subj}/sessions/attach-raised/{exc_site(e)}', f'{e!r} how={how}')
            return False
        if key in model:
            if raised is None:
                r.bad(f'C04/{subj}/sessions/duplicate-attach-accepted', f'prefix {[c.hex() for c in key]} how={how}')
                return False
        elif raised is not None:
            r.bad(f'C04/{subj}/sessions/attach-refused', f'{raised!r} how={how}')
            return False
        else:
            model[key] = hid
            order.append(key)
        return True

    try:
        for op in case['pre']:
            if not attach(op):
                return r
        for conn in range(case['connections']):
            sim.start()
            for n in case['names']:
                name = _comps(n)
                want = next((model[tuple(name[:k])] for k in range(len(name), -1, -1) if tuple(name[:k]) in model), None)
                before = len(calls)
                sim.deliver(net.interest_wire(name, lifetime=4000, nonce=7), case['mode'])
                if sim.receive_errors:
                    r.bad(f'C04/{subj}/sessions/receive-raised/connection-{min(conn, 1)}/{sim.receive_errors[0].split(":")[0]}', sim.receive_errors[0])
                    return r
                got = calls[before:]
                if [g[0] for g in got] != ([] if want is None else [want]) or (got and got[0][1] != name):
                    kind = 'delivered-without-match' if want is None else 'not-delivered' if not got else 'wrong-handler'
                    r.bad(f'C04/{subj}/sessions/{kind}/connection-{min(conn, 1)}',
                          f'name {[c.hex() for c in name]}: handlers {got}, expected {want}; attached {[[c.hex() for c in k] for k in model]} pre={case["pre"]}')
                    return r
            errs = sim.vl.collect_errors()
            if errs:
                r.bad(f'C04/{subj}/sessions/unhandled-loop-error/{errs[0]["type"]}', str(errs[:2]))
                return r
            err = sim.finish()
            if err:
                r.bad(f'C04/{subj}/sessions/main-loop/connection-{min(conn, 1)}', err)
                return r
            if subj == 'legacy':
                # documented: "All callbacks registered by set_interest_filter are removed when disconnected from the forwarder"
                model.clear()
            if conn + 1 < case['connections']:
                sim.renew_loop()
                if conn == 0:
                    for op in case['mid']:
                        if op['op'] == 'attach':
                            if not attach(op):
                                return r
                        elif order:
                            key = order[op['k'] % len(order)]
                            if key in model:
                                try:
                                    if subj == 'v2':
                                        sim.vl.call(sim.app.detach_handler, list(key))
                                    else:
                                        sim.vl.call(sim.app.unset_interest_filter, list(key))
                                except Exception as e:
                                    r.bad(f'C04/{subj}/sessions/detach-raised/{exc_site(e)}', repr(e))
                                    return r
                                del model[key]
                                flags.add('detach-while-disconnected')
    finally:
        sim.close()
    r.key = (subj, len(model), tuple(sorted(flags)), case['connections'], len(case['names']), tuple(len(n) for n in case['names'][:3]))
    r.classes = (subj, 'sessions') + tuple(sorted(flags))
    return r


SUBCHECKS = {
    'sessions': SubCheck(run_sessions, strategy=lambda tier: _sessions_case(), examples={'quick': 400, 'thorough': 8000},
                         note='handlers attached before the first connection; the application run again in fresh event loops'),
    'v2': SubCheck(run_case, strategy=lambda tier: _case('v2'), examples={'quick': 2000, 'thorough': 60000}),
    'legacy': SubCheck(run_case, strategy=lambda tier: _case('legacy'), examples={'quick': 1500, 'thorough': 40000}),
    'dispatcher': SubCheck(run_case, strategy=lambda tier: _case('dispatcher'), examples={'quick': 1500, 'thorough': 40000}),
}
