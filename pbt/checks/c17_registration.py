"""C17 - prefix registration speaks the forwarder management protocol correctly."""
import asyncio
import hashlib

from hypothesis import strategies as st

from ndn.app_support import nfd_mgmt
from ndn.transport.nfd_registerer import NfdRegister

from .. import pkt as P
from .. import strats as S
from ..core import Result, SubCheck
from ..refs import tlv as T
from ..sim import net
from ..sim.appsim import AppSim, exc_site

PROPERTY_ID = 'C17'
RULE = ('Both front-ends (appv2 + NfdRegister, legacy app) against a scripted forwarder on the virtual loop. Prefixes: 0..4 components of '
        'any type; replies in {200 with body, 200 without body, other status with/without body, Nack, silence, random bytes as content, '
        'truncated ControlResponse, Data failing the digest validator (legacy)}; reply latency in {0,1,3,999,1001 ms}; 1..6 register / '
        'unregister calls started at the same clock reading; routes declared with @app.route before main_loop - or while the first face.open() (20 ms) is still pending - '
        'and two consecutive connections; legacy register() with or without a route validator (rejecting / accepting). Oracle: per call exactly one command Interest, strictly decoded: /localhost/nfd/rib/{register|unregister}/'
        '<ControlParameters naming the prefix>, correctly signed in the front-end\'s command format (v2: ApplicationParameters, '
        'DigestSha256 SignatureInfo with time+nonce, signature == SHA-256(signed portion), parameters digest; legacy: timestamp, nonce, '
        'SignatureInfo, SignatureValue components with the digest over the preceding components); result True <=> status 200, every '
        'other reply => False without raising; commands never overlap on the wire; timestamps strictly increasing; one register per '
        'declared route per connection; parse_response(encode(x)) == x over all ControlParameters fields. The reply x op x front-end '
        'grid is enumerated exhaustively. Non-trivial = >=2 concurrent calls or a non-200 reply; distinct key = (front-end, ops, reply '
        'kinds, latency class).')
ASSUMPTIONS = [
    'a reply arriving after the 1000 ms command lifetime is a timeout',
    'legacy unregister is called for prefixes that were registered, with a callback or with func=None (documented)',
]

REPLIES = ['ok-body', 'ok-nobody', 'err-body', 'err-nobody', 'status-201', 'status-399', 'status-0', 'nack', 'silence', 'garbage',
           'truncated', 'bad-digest']
CP, CR = 0x68, 0x65


def control_response(status, text, body_name):
    v = T.enc_tlv(0x66, T.enc_nni(status)) + T.enc_tlv(0x67, text.encode())
    if body_name is not None:
        v += T.enc_tlv(CP, T.enc_tlv(7, b''.join(body_name)) + T.enc_tlv(0x69, T.enc_nni(300)) + T.enc_tlv(0x6f, b'\x00')
                       + T.enc_tlv(0x6a, b'\x00') + T.enc_tlv(0x6c, b'\x01'))
    return T.enc_tlv(CR, v)


def reply_wire(kind, interest_wire, interest_name, prefix, nack_reason=150):
    if kind == 'silence':
        return None
    if kind == 'nack':
        # (any reason code, also one the forwarder specification has not assigned: the command failed, nothing more)
        return net.lp_wrap(interest_wire, nack_reason=nack_reason)
    if kind == 'ok-body':
        c = control_response(200, 'OK', prefix)
    elif kind == 'ok-nobody':
        c = control_response(200, 'OK', None)
    elif kind == 'err-body':
        c = control_response(403, 'Forbidden', prefix)
    elif kind == 'err-nobody':
        c = control_response(404, 'Nexthop record not found', None)
    elif kind.startswith('status-'):
        c = control_response(int(kind[7:]), 'other', prefix)
    elif kind == 'garbage':
        c = b'\xff\x00\x13garbage\x65'
    elif kind == 'truncated':
        c = control_response(200, 'OK', prefix)[:-3]
    else:
        c = control_response(200, 'OK', prefix)
    return net.data_wire(interest_name, content=c, freshness=1000, sig='baddigest' if kind == 'bad-digest' else 'digest')


def expected_result(fe, kind, latency_ms):
    if latency_ms >= 1000:
        return False
    if kind in ('ok-body', 'ok-nobody'):
        return True
    if kind == 'bad-digest':
        return fe == 'v2'          # v2 registers with a pass-all validator; legacy validates the digest signature
    return False


# ---- strict decoding of the command Interest -----------------------------------------------------------------------------
def check_command(r, fe, wire, op, prefix, last_ts, local=True):
    try:
        si = P.strict_interest(wire)
    except T.Malformed as e:
        r.bad(f'C17/{fe}/command-malformed', f'{e} {wire.hex()[:120]}')
        return None
    name = si['name']
    head = [net.comp('localhost' if local else 'localhop'), net.comp('nfd'), net.comp('rib'), net.comp(op)]
    if name[:4] != head or len(name) < 5:
        r.bad(f'C17/{fe}/command-name/{"local" if local else "non-local"}-face', f'{[bytes(c[2:]) for c in name[:4]]}')
        return None
    cpc = name[4]
    el = T.read_tlv(cpc, 0, len(cpc))
    if el[0] != 8:
        r.bad(f'C17/{fe}/control-parameters-component-type', cpc.hex())
        return None
    try:
        cp = T.single(cpc[el[2]:el[3]])
        body = cpc[el[2]:el[3]]
        fields = T.walk(body, cp[2], cp[3])
        nm = [f for f in fields if f[0] == 7]
        got_prefix = [bytes(body[c[1]:c[3]]) for c in T.walk(body, nm[0][2], nm[0][3])] if nm else None
    except (T.Malformed, IndexError) as e:
        r.bad(f'C17/{fe}/control-parameters-malformed', f'{e} {cpc.hex()}')
        return None
    if cp[0] != CP or got_prefix != prefix:
        r.bad(f'C17/{fe}/control-parameters-name', f'type {cp[0]:#x}, names {got_prefix} expected {prefix}')
    if fe == 'v2':
        if len(name) != 6 or T.read_num(name[5], 0, 1)[0] != 2:
            r.bad('C17/v2/command-name-shape', f'{[c.hex() for c in name]}')
            return None
        if si['app_param'] is None:
            r.bad('C17/v2/no-application-parameters', '')
        info = si['sig_info']
        if info is None or info['signature_type'] != 0 or info['time'] is None or info['nonce'] is None:
            r.bad('C17/v2/signature-info', str(info))
            return None
        if si['sig_value'] != hashlib.sha256(si['signed']).digest():
            r.bad('C17/v2/signature-value', 'not SHA-256 of the signed portion')
        if si['digest_comp'] != hashlib.sha256(si['digest_covered']).digest():
            r.bad('C17/v2/parameters-digest', '')
        ts = info['time']
    else:
        if len(name) != 9:
            r.bad('C17/legacy/command-name-shape', f'{len(name)} components')
            return None
        tsc, nonce, sic, svc = name[5:9]
        if len(tsc) != 10 or len(nonce) != 10:
            r.bad('C17/legacy/timestamp-nonce-shape', f'{tsc.hex()} {nonce.hex()}')
            return None
        ts = int.from_bytes(tsc[2:], 'big')
        try:
            si_el = T.single(sic[T.read_tlv(sic, 0, len(sic))[2]:])
            sv_el = T.single(svc[T.read_tlv(svc, 0, len(svc))[2]:])
            sv_body = svc[T.read_tlv(svc, 0, len(svc))[2]:]
            if si_el[0] != 0x16 or sv_el[0] != 0x17:
                raise T.Malformed('types')
            sigval = sv_body[sv_el[2]:sv_el[3]]
        except T.Malformed as e:
            r.bad('C17/legacy/signature-components', f'{e}')
            return None
        if sigval != hashlib.sha256(b''.join(name[:8])).digest():
            r.bad('C17/legacy/signature-value', 'not SHA-256 over the preceding name components')
    if last_ts is not None and ts <= last_ts:
        r.bad(f'C17/{fe}/timestamp-not-increasing', f'{ts} after {last_ts}')
    return ts, name


# ---- scenario ------------------------------------------------------------------------------------------------------------
def run_case(case):
    r = Result()
    fe = case['frontend']
    other = None
    if fe == 'v2' and case.get('second_app'):
        # two appv2 applications in one process, both with the registerer the library installs by default; the second one is
        # constructed later and stays idle: the first one's commands still leave through the FIRST one's face
        sim = AppSim(fe, registerer='default', local=case.get('local', True))
        from ndn import appv2 as _v2
        other_face = net.MemFace()
        other = _v2.NDNApp(face=other_face)
    else:
        sim = AppSim(fe, registerer=NfdRegister() if fe == 'v2' else None, local=case.get('local', True))
    try:
        if case.get('reconnect'):
            # an earlier connection, in another event loop, on which two registrations ran concurrently; then the same
            # application object is run again in a fresh loop (the reconnect pattern: run_forever() called again)
            plain_send = sim.face.send
            first = {'frontend': fe, 'local': case.get('local', True), 'calls': [
                {'op': 'register', 'prefix': [[8, '6f6c64'], [8, bytes([0x30 + i]).hex()]], 'reply': 'ok-body', 'latency': 1,
                 'with_func': False} for i in range(2)]}
            _run(sim, fe, first, r, tag='first-connection/')
            err = sim.finish()
            if err:
                r.bad(f'C17/{fe}/first-connection/main-loop', err)
            sim.face.send = plain_send
            sim.face.sent.clear()
            sim.renew_loop()
        if not r.violations:
            _run(sim, fe, case, r)
        if other is not None and other_face.sent:
            r.bad('C17/v2/command-left-through-another-applications-face', f'{len(other_face.sent)} packets on the idle application\'s face')
    finally:
        sim.finish()
        sim.close()
    if case.get('reconnect'):
        r.classes = tuple(r.classes or ()) + ('second-connection-in-a-fresh-loop',)
    return r


def _run(sim, fe, case, r, tag=''):
    loop = sim.vl.loop
    face = sim.face
    orig_send = face.send
    script = list(case['calls'])
    wire_log = []          # (t_ms, 'cmd'|'reply', idx)
    state = {'outstanding': 0, 'last_ts': None, 'n_cmd': 0, 'seen': []}
    by_prefix = {}

    def send(data):
        orig_send(data)
        w = bytes(data)
        if net.outer_type(w) != 5:
            return
        try:
            nm = P.strict_interest(w)['name']
        except T.Malformed:
            r.bad(f'C17/{fe}/command-malformed', w.hex()[:100])
            return
        if nm[1:3] != [net.comp('nfd'), net.comp('rib')] or nm[0] not in (net.comp('localhost'), net.comp('localhop')):
            return
        op = bytes(nm[3][2:]).decode()
        idx = state['n_cmd']
        state['n_cmd'] += 1
        if state['outstanding'] > 0:
            r.bad(f'C17/{fe}/commands-overlap', f'command {idx} sent while {state["outstanding"]} still unanswered')
        state['outstanding'] += 1
        # which call is this?  match by op + prefix encoded inside
        call = next((c for c in script if not c.get('_seen') and c['op'] == op
                     and _cp_prefix(nm[4]) == S.name_comps(c['prefix'])), None)
        if call is None:
            r.bad(f'C17/{fe}/unexpected-command', f'{op} {[c.hex() for c in nm[4:5]]}')
            state['outstanding'] -= 1
            return
        call['_seen'] = True
        res = check_command(r, fe, w, op, S.name_comps(call['prefix']), state['last_ts'], local=case.get('local', True))
        if res is None:
            state['outstanding'] -= 1
            return
        state['last_ts'] = res[0]
        reply = reply_wire(call['reply'], w, res[1], S.name_comps(call['prefix']), call.get('nack_reason', 150))
        lat = call['latency'] / 1000

        def deliver():
            state['outstanding'] -= 1
            if reply is not None and lat < 1.0:
                loop.create_task(sim.app.face.callback(net.outer_type(reply), reply))
            elif reply is not None:
                loop.create_task(sim.app.face.callback(net.outer_type(reply), reply))
        if reply is None or lat >= 1.0:
            # the command ends (for the wire) when its lifetime is over
            loop.call_later(1.0, lambda: state.__setitem__('outstanding', state['outstanding'] - 1))
            if reply is not None:
                loop.call_later(lat, lambda: loop.create_task(sim.app.face.callback(net.outer_type(reply), reply)))
        else:
            loop.call_later(lat, deliver)
    face.send = send
    sim.start()
    results = {}

    async def one(i, c):
        try:
            pfx = _name_form(S.name_comps(c['prefix']), c.get('name_form', 'list'))
            if fe == 'v2':
                if c['op'] == 'register':
                    res = await sim.app.register(pfx)
                else:
                    res = await sim.app.unregister(pfx)
            else:
                if c['op'] == 'register':
                    rv = c.get('route_validator')
                    if rv is None:
                        res = await sim.app.register(pfx, (lambda n, p, a: None) if c.get('with_func') else None)
                    else:
                        # the validator for Interests arriving on the new route; it has no say about the forwarder's reply
                        async def route_validator(_n, _s, rv=rv):
                            return rv == 'accept'
                        res = await sim.app.register(pfx, (lambda n, p, a: None) if c.get('with_func') else None, route_validator)
                else:
                    res = await sim.app.unregister(pfx)
            results[i] = ('ret', res)
        except Exception as e:
            results[i] = ('exc', exc_site(e), repr(e)[:200])

    async def spawn_all():
        return [asyncio.get_running_loop().create_task(one(i, c)) for i, c in enumerate(script)]
    # legacy unregister needs the prefix to have been registered before: do that silently with an 'ok' forwarder first
    if fe == 'legacy':
        for c in script:
            if c['op'] == 'unregister' and c.get('with_func'):
                # with_func False models a prefix registered with func=None (documented): no callback to remove
                try:
                    sim.vl.call(sim.app.set_interest_filter, S.name_comps(c['prefix']), lambda n, p, a: None)
                except ValueError:
                    pass
    if case.get('tick'):
        # the millisecond clock rolls over while a command is being put together (between two of the library's clock readings)
        nticks = [0]

        def tick():
            nticks[0] += 1
            if nticks[0] % 2 == 1:        # (every other command: the next one is then built within the same millisecond)
                sim.vl.clock.t += 0.001
        face.on_local_check = tick
    tasks = sim.vl.run(spawn_all())
    cancelled = None
    ci = case.get('cancel')
    if ci is not None and len(script) >= 2 and script[0]['latency'] >= 1:
        # a call that is still queued behind the first command (unanswered so far) is given up by its caller
        sim.vl.settle()
        cancelled = 1 + ci % (len(script) - 1)
        if not script[cancelled].get('_seen') and not tasks[cancelled].done():
            tasks[cancelled].cancel()
        else:
            cancelled = None
    for _ in range(60):
        if all(t.done() for t in tasks):
            break
        sim.vl.advance(0.25)
    if not all(t.done() for t in tasks):
        r.bad(f'C17/{fe}/call-does-not-finish', f'{results}')
        return
    for i, c in enumerate(script):
        want = expected_result(fe, c['reply'], c['latency'])
        got = results.get(i)
        if i == cancelled:
            if c.get('_seen'):
                r.bad(f'C17/{fe}/{c["op"]}/command-sent-for-cancelled-call', f'{c}')
            continue
        if not c.get('_seen'):
            r.bad(f'C17/{fe}/{c["op"]}/no-command-sent', f'{c}')
            continue
        if got[0] == 'exc':
            r.bad(f'C17/{fe}/{c["op"]}/raised/{c["reply"]}/{got[1]}', got[2])
        elif bool(got[1]) != want or not isinstance(got[1], bool):
            r.bad(f'C17/{fe}/{c["op"]}/result/{c["reply"]}/returned={got[1]!r}', f'expected {want} (latency {c["latency"]} ms)')
    if state['n_cmd'] != len(script) - (1 if cancelled is not None else 0):
        r.bad(f'C17/{fe}/command-count', f'{state["n_cmd"]} commands for {len(script)} calls')
    if sim.receive_errors:
        r.bad(f'C17/{fe}/receive-raised/{sim.receive_errors[0].split(":")[0]}', sim.receive_errors[0])
    errs = sim.vl.collect_errors()
    if errs:
        r.bad(f'C17/{fe}/unhandled-loop-error/{errs[0]["type"]}', str(errs[:2])[:300])
    conc = len(script)
    non200 = any(c['reply'] not in ('ok-body', 'ok-nobody') for c in script)
    nontrivial = conc >= 2 or non200
    r.key = (fe, tuple(sorted((c['op'], c['reply'], c['latency'] >= 999) for c in script))) if nontrivial else None
    r.classes = (fe, f'calls:{conc}') + tuple(f'reply:{c["reply"]}' for c in script)


def _cp_prefix(comp):
    try:
        el = T.read_tlv(comp, 0, len(comp))
        body = comp[el[2]:el[3]]
        cp = T.single(body)
        nm = [f for f in T.walk(body, cp[2], cp[3]) if f[0] == 7]
        return [bytes(body[c[1]:c[3]]) for c in T.walk(body, nm[0][2], nm[0][3])]
    except Exception:
        return None


def _name_form(comps, form):
    """The prefix in one of the documented NonStrictName forms (one-shot iterables included)."""
    from ndn.encoding import Name
    if form == 'tuple':
        return tuple(comps)
    if form == 'iter':
        return iter(list(comps))
    if form == 'gen':
        return (c for c in comps)
    if form == 'str':
        # (URI text only where it denotes this very name: the shorthand for typed numbers is not invertible for numbers that
        #  are not canonically encoded - C09 leaves those out, and so does this form)
        try:
            text = Name.to_str(comps)
            if [bytes(c) for c in Name.from_str(text)] != [bytes(c) for c in comps]:
                return list(comps)
        except Exception:
            return list(comps)
        return text
    if form == 'bytes':
        return bytes(Name.to_bytes(comps))
    return list(comps)


def _call(fe):
    return st.fixed_dictionaries({'nack_reason': st.sampled_from([150, 150, 0, 50, 100, 120, 151, 200, 255, 1000]),
                                  'name_form': st.sampled_from(['list', 'list', 'tuple', 'iter', 'gen', 'str', 'bytes']),
                                  'op': st.sampled_from(['register', 'register', 'unregister']),
                                  'prefix': S.name(0, 4, 12, allow_digest_types=False),
                                  'reply': st.sampled_from(REPLIES), 'latency': st.sampled_from([0, 1, 3, 999, 1001]),
                                  'with_func': st.booleans(),
                                  'route_validator': st.sampled_from([None, None, 'reject', 'accept'])})


def _case(fe):
    return st.fixed_dictionaries({'frontend': st.just(fe), 'local': st.sampled_from([True, True, False]),
                                  'reconnect': st.sampled_from([False, False, True]),
                                  'tick': st.sampled_from([False, False, True]), 'cancel': st.sampled_from([None, None, 0, 1, 2]),
                                  'second_app': st.sampled_from([False, False, True]),
                                  'calls': st.lists(_call(fe), min_size=1, max_size=6,
                                                    unique_by=lambda c: str(c['prefix']))})


def _grid(tier):
    for fe in ('v2', 'legacy'):
        for op in ('register', 'unregister'):
            for reply in REPLIES:
                for lat in (0, 999, 1001):
                    yield {'frontend': fe, 'calls': [{'op': op, 'prefix': [[8, '61'], [8, '62']], 'reply': reply, 'latency': lat,
                                                      'with_func': True}]}
                    if fe == 'legacy' and op == 'register' and lat == 0:
                        for rv in ('reject', 'accept'):
                            yield {'frontend': fe, 'calls': [{'op': op, 'prefix': [[8, '61'], [8, '62']], 'reply': reply, 'latency': lat,
                                                              'with_func': True, 'route_validator': rv}]}
        # concurrency at the same clock reading
        for local in (False, True, False):
            yield {'frontend': fe, 'local': local, 'calls': [{'op': 'register', 'prefix': [[8, '6c']], 'reply': 'ok-body', 'latency': 0,
                                                               'with_func': False}]}
        for n in (2, 4, 6):
            for rc in (False, True, 'tick'):
                yield {'frontend': fe, 'reconnect': rc is True, 'tick': rc == 'tick',
                       'calls': [{'op': 'register', 'prefix': [[8, '70'], [8, bytes([0x30 + i]).hex()]], 'reply': 'ok-body',
                                  'latency': 0, 'with_func': False} for i in range(n)]}


# ---- routes declared before connecting ----------------------------------------------------------------------------------
def run_routes(case):
    r = Result()
    fe = case['frontend']
    sim = AppSim(fe, registerer=NfdRegister() if fe == 'v2' else None)
    try:
        loop = sim.vl.loop
        face = sim.face
        orig_send = face.send
        seen = []

        def send(data):
            orig_send(data)
            w = bytes(data)
            if net.outer_type(w) != 5:
                return
            si = P.strict_interest(w)
            nm = si['name']
            if nm[:4] == [net.comp('localhost'), net.comp('nfd'), net.comp('rib'), net.comp('register')]:
                seen.append(tuple(_cp_prefix(nm[4]) or []))
                reply = net.data_wire(nm, content=control_response(200, 'OK', _cp_prefix(nm[4])), freshness=1000)
                loop.call_later(case['latency'] / 1000, lambda: loop.create_task(sim.app.face.callback(6, reply)))
        face.send = send
        routes = [S.name_comps(p) for p in case['routes']]
        # some routes are declared while the first connection is still being opened (open() takes 20 ms): not connected yet either
        n_late = min(case.get('late', 0), len(routes) - 1) if case.get('open_delay') else 0
        face.open_delay = case.get('open_delay', 0) / 1000

        n_decl = [0]

        def declare(p):
            # the prefix in any legal form: list / tuple / one-shot generator / one-shot iterator
            form = (case.get('name_form', 0) + n_decl[0]) % 4
            n_decl[0] += 1
            p = list(p) if form == 0 else tuple(p) if form == 1 else (c for c in list(p)) if form == 2 else iter(list(p))
            if fe == 'v2':
                sim.app.route(p)(lambda n, a, rp, c: None)
            else:
                sim.app.route(p)(lambda n, pa, a: None)
        for p in routes[:len(routes) - n_late]:
            declare(p)
        if case.get('dup') and fe == 'v2':
            # one of the routes is declared a second time: the prefix is occupied, the declaration is refused - and a refused
            # declaration declares nothing
            try:
                declare(routes[case['dup'] % (len(routes) - n_late)])
                r.bad(f'C17/{fe}/routes/second-declaration-accepted', '')
            except ValueError:
                pass
        for conn in range(2):
            seen.clear()
            sim.start()
            if conn == 0 and n_late:
                sim.vl.advance(face.open_delay / 4)
                for p in routes[len(routes) - n_late:]:
                    sim.vl.call(declare, p)
            sim.vl.advance(1.0 + 0.2 * len(routes))
            if conn == 0 and case.get('during'):
                # one more route declared while connection 0 is up (how often it is registered on THIS connection is not
                # checked); for the next connection it is a route declared before connecting
                extra = [net.comp('during'), net.comp('x')]
                n0 = len(seen)
                sim.vl.call(declare, extra)
                sim.vl.advance(1.5)
                del seen[n0:]
                routes = routes + [extra]
            if sorted(seen) != sorted(map(tuple, routes[:-1] if conn == 0 and case.get('during') else routes)):
                r.bad(f'C17/{fe}/routes/connection-{conn}', f'register commands {seen} for routes {routes}')
                break
            if conn == 0 and case.get('end') == 'cancel' and sim.main_task is not None:
                # the connection ends because the task running main_loop() is cancelled (Ctrl+C), not by shutdown()
                sim.vl.call(sim.main_task.cancel)
                sim.vl.settle()
                sim.vl.advance(0.01)
                if not sim.main_task.done():
                    r.bad(f'C17/{fe}/routes/main-loop', 'main_loop still running after its task was cancelled')
                    break
                if sim.face.running:
                    sim.face.shutdown()
                sim.vl.settle()
            elif conn == 0 and case.get('end') == 'transport-error' and sim.main_task is not None:
                # the connection ends because the transport breaks: face.run() raises, and so does main_loop()
                sim.vl.call(sim.face.fail, BrokenPipeError('transport broke'))
                sim.vl.settle()
                sim.vl.advance(0.01)
                if not sim.main_task.done():
                    r.bad(f'C17/{fe}/routes/main-loop', 'main_loop still running after the transport failed')
                    break
                if not sim.main_task.cancelled():
                    sim.main_task.exception()       # (retrieved: the application saw it)
                sim.vl.settle()
            else:
                err = sim.finish()
                if err:
                    r.bad(f'C17/{fe}/routes/main-loop', err)
                    break
            sim.main_task = None
        errs = sim.vl.collect_errors()
        if errs:
            r.bad(f'C17/{fe}/routes/unhandled-loop-error/{errs[0]["type"]}', str(errs[:2])[:300])
    finally:
        sim.close()
    r.key = (fe, len(case['routes']), case['latency'], case.get('open_delay', 0), n_late)
    r.classes = (fe, f'routes:{len(routes)}', f'declared-while-opening:{n_late}') + (('declared-while-connected',) if case.get('during') else ())
    return r


def _routes_case():
    return st.fixed_dictionaries({'frontend': st.sampled_from(['v2', 'legacy']),
                                  'routes': st.lists(S.name(1, 3, 8, allow_digest_types=False), min_size=1, max_size=4,
                                                     unique_by=str),
                                  'latency': st.sampled_from([0, 1, 5]), 'open_delay': st.sampled_from([0, 20]),
                                  'late': st.integers(0, 2), 'during': st.booleans(), 'dup': st.sampled_from([0, 0, 1, 2, 3]), 'name_form': st.integers(0, 3), 'end': st.sampled_from(['shutdown', 'cancel', 'transport-error'])})


# ---- parse_response round trip -----------------------------------------------------------------------------------------------
CP_FIELDS = [('face_id', 0x69), ('origin', 0x6f), ('cost', 0x6a), ('capacity', 0x83), ('count', 0x84),
             ('base_congestion_mark_interval', 0x87), ('default_congestion_threshold', 0x88), ('mtu', 0x89), ('flags', 0x6c),
             ('mask', 0x70), ('expiration_period', 0x6d)]
CP_ORDER = ['name', 'face_id', 'uri', 'local_uri', 'origin', 'cost', 'capacity', 'count', 'base_congestion_mark_interval',
            'default_congestion_threshold', 'mtu', 'flags', 'mask', 'strategy', 'expiration_period', 'face_persistency']
_U = st.one_of(st.sampled_from([0, 255, 256, 65535, 65536, 2 ** 32 - 1, 2 ** 32, 2 ** 64 - 1]), st.integers(0, 2 ** 64 - 1))


@st.composite
def _resp_case(draw):
    vals = {'status_code': draw(st.one_of(st.sampled_from([200, 400, 403, 404, 409, 501]), st.integers(0, 2 ** 32))),
            'status_text': draw(st.one_of(st.none(), st.text(max_size=20), st.sampled_from(['OK', 'Défendu', '未找到', '']))),
            'body': draw(st.booleans())}
    if vals['body']:
        for k, _t in CP_FIELDS:
            vals[k] = draw(st.one_of(st.none(), _U))
        vals['name'] = draw(st.one_of(st.none(), S.name(0, 4, 10)))
        vals['uri'] = draw(st.one_of(st.none(), st.text(max_size=12), st.just('udp4://224.0.23.170:56363')))
        vals['local_uri'] = draw(st.one_of(st.none(), st.text(max_size=12)))
        vals['strategy'] = draw(st.one_of(st.none(), S.name(1, 4, 10)))
        vals['face_persistency'] = draw(st.one_of(st.none(), st.sampled_from([0, 1, 2])))
    return vals


def run_response(case):
    r = Result()
    v = T.enc_tlv(0x66, T.enc_nni(case['status_code']))
    if case['status_text'] is not None:
        v += T.enc_tlv(0x67, case['status_text'].encode())
    tmap = dict(CP_FIELDS)
    if case['body']:
        b = b''
        for k in CP_ORDER:
            val = case.get(k)
            if val is None:
                continue
            if k == 'name':
                b += S.name_wire(val)
            elif k in ('uri', 'local_uri'):
                b += T.enc_tlv({'uri': 0x72, 'local_uri': 0x81}[k], val.encode())
            elif k == 'strategy':
                b += T.enc_tlv(0x6b, S.name_wire(val))
            elif k == 'face_persistency':
                b += T.enc_tlv(0x85, T.enc_nni(val))
            else:
                b += T.enc_tlv(tmap[k], T.enc_nni(val))
        v += T.enc_tlv(CP, b)
    wire = T.enc_tlv(CR, v)
    try:
        got = nfd_mgmt.parse_response(wire)
    except Exception as e:
        return r.bad(f'C17/parse_response/raised/{type(e).__name__}/{"body" if case["body"] else "no-body"}', f'{e!r} wire={wire.hex()[:120]}')
    if got.get('status_code') != case['status_code'] or got.get('status_text') != case['status_text']:
        r.bad('C17/parse_response/status', f'{got.get("status_code")} {got.get("status_text")!r}')
    if case['body']:
        for k in CP_ORDER:
            want = case.get(k)
            g = got.get(k)
            if k == 'name':
                g = None if g is None else [bytes(c) for c in g]
                want = None if want is None else S.name_comps(want)
            elif k == 'strategy':
                g = None if g is None else (None if g.name is None else [bytes(c) for c in g.name])
                want = None if want is None else S.name_comps(want)
            elif k == 'face_persistency':
                g = None if g is None else getattr(g, 'value', g)
            if g != want:
                r.bad(f'C17/parse_response/field/{k}', f'{g!r} != {want!r}')
                break
    r.key = (case['body'], case['status_code'] == 200, sum(1 for k in CP_ORDER if case.get(k) is not None))
    return r


SUBCHECKS = {
    'grid': SubCheck(run_case, enumerate=_grid, exhaustive={'quick': True, 'thorough': True},
                     note='reply kind (12) x op (2) x front-end (2) x latency class (3), plus 2/4/6 concurrent registrations'),
    'calls-v2': SubCheck(run_case, strategy=lambda tier: _case('v2'), examples={'quick': 400, 'thorough': 15000}),
    'calls-legacy': SubCheck(run_case, strategy=lambda tier: _case('legacy'), examples={'quick': 400, 'thorough': 15000}),
    'routes': SubCheck(run_routes, strategy=lambda tier: _routes_case(), examples={'quick': 120, 'thorough': 3000}),
    'responses': SubCheck(run_response, strategy=lambda tier: _resp_case(), examples={'quick': 1500, 'thorough': 40000}),
}
