"""C13 - ill-formed schemas and models are rejected; accepted models always terminate."""
import copy

import lark
from hypothesis import strategies as st

from ndn.app_support.light_versec import Checker, LvsModelError, SemanticError, compile_lvs
from ndn.app_support.light_versec import binary as bny

from .. import lvs_gen as G
from ..core import Result, SubCheck
from ..linebudget import BudgetExceeded, LineBudget
from ..refs import lvs_ref as L
from .c11_lvs_match import MAX_CHAINS, chain_count

PROPERTY_ID = 'C13'
RULE = ('(a) a valid generated schema plus ONE injected static error, for every kind (reference to an undefined / temporary rule in a '
        'name or signer list, reference closing a cycle, signer edge closing a cycle, constraint on / option naming / function argument '
        'naming a pattern that occurs nowhere, temporary pattern as option or argument) at EVERY applicable position => compile_lvs or '
        'Checker() must raise SemanticError. (b) valid schemas whose name-pattern skeletons have an acyclic signing graph => compile, '
        'Checker() and load(save()) succeed. (c) compiled models with ONE corrupted field, every field of every node / edge / option in '
        'turn (version 0, +-1, absent; node id; edge destination >= n, absent, self, root, ancestor, sibling, cousin; parent wrong or '
        'absent incl. children of node 0; signer id >= n; option with 0 or 2 of value/tag/fn), on the object and through '
        'save()->bytes->load(); an independent implementation of the six documented sanity rules decides "must raise LvsModelError"; '
        'every ACCEPTED model (corrupted or not) is queried with match/check on sampled names under a sys.monitoring line budget. '
        'Non-trivial = injected error not in the first definition / corrupted field not on the root node; distinct key = (kind, '
        'position class, schema shape hash).')
ASSUMPTIONS = [
    'the six sanity rules of docs/src/lvs/binary-format.rst are the documented ones; missing Value/Tag of an edge and a function '
    'call without id are outside them (no demand either way, but only LvsModelError or acceptance is tolerated)',
    'line budget for one match/check query on names of <= 5 components: 400 000 executed library lines',
]

QUERY_BUDGET = 400_000


# ====================================== (a) static errors ========================================================
def _all_named(sch):
    out = set()
    for rl in sch['rules']:
        for it in rl['name']:
            if 'pat' in it and not it['pat'].startswith('_'):
                out.add(it['pat'])
    return out


def _reach(sch, edge_of):
    """transitive closure over rule ids using edge_of(rule) -> list of ids"""
    ids = {rl['id'] for rl in sch['rules']}
    adj = {i: set() for i in ids}
    for rl in sch['rules']:
        for t in edge_of(rl):
            if t in ids:
                adj[rl['id']].add(t)
    reach = {i: set(adj[i]) for i in ids}
    changed = True
    while changed:
        changed = False
        for i in ids:
            new = set()
            for j in reach[i]:
                new |= reach[j]
            if not new <= reach[i]:
                reach[i] |= new
                changed = True
    return reach


def injections(sch):
    """Yield (kind, position-label, mutated schema)."""
    rules = sch['rules']
    ids = [rl['id'] for rl in rules]
    has_temp_rule = any(i.startswith('#_') for i in ids)
    ref_reach = _reach(sch, lambda rl: [it['ref'] for it in rl['name'] if 'ref' in it])
    sign_reach = _reach(sch, lambda rl: rl['sign'])
    unknown_pat = 'nowhere'
    for ri, rl in enumerate(rules):
        def mut(**kw):
            s2 = copy.deepcopy(sch)
            s2['rules'][ri].update(kw)
            return s2
        n = len(rl['name'])
        for pos in range(n + 1):
            yield 'undefined-rule-in-name', (ri, pos), mut(name=rl['name'][:pos] + [{'ref': '#nosuch'}] + rl['name'][pos:])
            if has_temp_rule:
                yield 'temp-rule-in-name', (ri, pos), mut(name=rl['name'][:pos] + [{'ref': '#_t'}] + rl['name'][pos:])
            # reference closing a cycle: refer to a rule that (transitively) refers to this one, or to itself
            if not rl['id'].startswith('#_'):
                for tgt in sorted({rl['id']} | {i for i in ref_reach if rl['id'] in ref_reach[i]}):
                    if not tgt.startswith('#_'):
                        yield 'reference-cycle', (ri, pos), mut(name=rl['name'][:pos] + [{'ref': tgt}] + rl['name'][pos:])
        for pos in range(len(rl['sign']) + 1):
            yield 'undefined-signer', (ri, pos), mut(sign=rl['sign'][:pos] + ['#nosuch'] + rl['sign'][pos:])
            if has_temp_rule:
                yield 'temp-signer', (ri, pos), mut(sign=rl['sign'][:pos] + ['#_t'] + rl['sign'][pos:])
        if not rl['id'].startswith('#_'):
            for tgt in sorted({rl['id']} | {i for i in sign_reach if rl['id'] in sign_reach[i]}):
                if not tgt.startswith('#_') and tgt not in rl['sign']:
                    yield 'signing-cycle', (ri, 0), mut(sign=rl['sign'] + [tgt])
        # constraints
        own = [it['pat'] for it in rl['name'] if 'pat' in it]
        victim = own[0] if own else None
        for ci in range(len(rl['cons']) + 1):
            bad_term = {'pat': unknown_pat, 'opts': [{'lit': 'a'}]}
            yield 'constraint-on-unknown-pattern', (ri, ci), mut(cons=rl['cons'][:ci] + [[bad_term]] + rl['cons'][ci:])
            # the same with a TEMPORARY identifier that occurs nowhere in this rule
            tmp_unknown = next(t_ for t_ in ('_zz', '_nowhere') if t_ not in own)
            yield 'constraint-on-unknown-temporary-pattern', (ri, ci), mut(
                cons=rl['cons'][:ci] + [[{'pat': tmp_unknown, 'opts': [{'lit': 'a'}]}]] + rl['cons'][ci:])
            if victim:
                yield 'option-unknown-pattern', (ri, ci), mut(cons=rl['cons'][:ci] + [[{'pat': victim, 'opts': [{'pat': unknown_pat}]}]] + rl['cons'][ci:])
                yield 'fn-arg-unknown-pattern', (ri, ci), mut(cons=rl['cons'][:ci] + [[{'pat': victim, 'opts': [{'fn': '$eq', 'args': [{'pat': unknown_pat}]}]}]] + rl['cons'][ci:])
                yield 'temp-pattern-as-option', (ri, ci), mut(cons=rl['cons'][:ci] + [[{'pat': victim, 'opts': [{'pat': '_t'}]}]] + rl['cons'][ci:])
                yield 'temp-pattern-as-fn-arg', (ri, ci), mut(cons=rl['cons'][:ci] + [[{'pat': victim, 'opts': [{'fn': '$eq', 'args': [{'lit': 'a'}, {'pat': '_'}]}]}]] + rl['cons'][ci:])
        # inside existing constraint sets: extra term / extra option
        for ci, cs in enumerate(rl['cons']):
            for ti in range(len(cs) + 1):
                cons2 = copy.deepcopy(rl['cons'])
                cons2[ci].insert(ti, {'pat': unknown_pat, 'opts': [{'lit': 'a'}]})
                yield 'constraint-on-unknown-pattern', (ri, ci, ti), mut(cons=cons2)
            for ti, t in enumerate(cs):
                for oi in range(len(t['opts']) + 1):
                    cons2 = copy.deepcopy(rl['cons'])
                    cons2[ci][ti]['opts'].insert(oi, {'pat': unknown_pat})
                    yield 'option-unknown-pattern', (ri, ci, ti, oi), mut(cons=cons2)
                    cons3 = copy.deepcopy(rl['cons'])
                    cons3[ci][ti]['opts'].insert(oi, {'pat': '_'})
                    yield 'temp-pattern-as-option', (ri, ci, ti, oi), mut(cons=cons3)


def _build(text, fns):
    model = compile_lvs(text)
    ck = Checker(model, fns)
    return model, ck


def run_static(case):
    r = Result()
    sch = case['schema']
    fns = G.user_fns()
    if chain_count(sch) > MAX_CHAINS or not _valid_base(sch, fns):
        r.discarded = True
        return r
    keys = set()
    n = 0
    for kind, pos, s2 in injections(sch):
        if chain_count(s2) > 4 * MAX_CHAINS:
            continue
        text = L.render(s2, case.get('style', 0))
        n += 1
        try:
            _build(text, fns)
            outcome = 'accepted'
        except SemanticError:
            outcome = 'SemanticError'
        except lark.LarkError as e:
            r.bad('C13/static/harness-render', f'{e} :: {text}')
            break
        except RecursionError as e:
            outcome = 'RecursionError'
        except Exception as e:
            outcome = type(e).__name__
        if outcome != 'SemanticError':
            r.bad(f'C13/static/{kind}/{outcome}', f'position {pos} :: {text}')
            break
        if pos[0] > 0:
            keys.add((kind, min(pos[0], 3), len(pos)))
    r.key = sorted(keys) if keys else None
    r.classes = ('static', f'injections:{min(n // 20 * 20, 200)}+')
    return r


def _valid_base(sch, fns):
    try:
        _build(L.render(sch, 0), fns)
        return True
    except Exception:
        return False


# ====================================== (b) valid schemas ============================================================
def skeleton_signing_acyclic(sch):
    ex = L.expand(sch)
    sk = {}

    def skel(ch):
        return tuple(('L', v) if k == 'lit' else 'P' for k, v in ch.items)
    adj = {}
    for rid, chains in ex.items():
        for ch in chains:
            a = skel(ch)
            adj.setdefault(a, set())
            for k in ch.sign:
                for kc in ex.get(k, []):
                    adj[a].add(skel(kc))
                    adj.setdefault(skel(kc), set())
    # cycle detection
    state = {}

    def dfs(u):
        state[u] = 1
        for v in adj[u]:
            if state.get(v) == 1:
                return False
            if v not in state and not dfs(v):
                return False
        state[u] = 2
        return True
    return all(dfs(u) for u in list(adj) if u not in state)


def run_valid(case):
    r = Result()
    sch = case['schema']
    fns = G.user_fns()
    if chain_count(sch) > MAX_CHAINS:
        r.discarded = True
        return r
    if not skeleton_signing_acyclic(sch):
        r.discarded = True
        return r
    text = L.render(sch, case.get('style', 0))
    try:
        model, ck = _build(text, fns)
    except lark.LarkError as e:
        return r.bad('C13/valid/harness-render', f'{e} :: {text}')
    except Exception as e:
        return r.bad(f'C13/valid/refused/{type(e).__name__}', f'{e!r} :: {text}')
    try:
        ck2 = Checker.load(ck.save(), fns)
    except Exception as e:
        return r.bad(f'C13/valid/load-refused/{type(e).__name__}', f'{e!r} :: {text}')
    _query(r, 'valid', ck2, sch, text)
    signed = sum(1 for rl in sch['rules'] if rl['sign'])
    r.key = text if signed and len(sch['rules']) > 2 else None
    r.classes = ('valid', f'signed-rules:{min(signed, 3)}')
    return r


def run_valid_large(case):
    """Valid models with several hundred nodes (node ids, pattern tags and signer ids beyond one octet): what the compiler
    produces is accepted - directly, and after save() / load() - and answers queries."""
    r = Result()
    n, width = case['n_rules'], case['width']
    rules = []
    for i in range(n):
        items = [{'lit': f'p{i}'}] + [{'pat': '_'} if (i + j) % 3 else {'pat': f'x{j}'} for j in range(width)]
        rules.append({'id': f'#r{i}', 'name': items, 'cons': [], 'sign': [f'#r{i + 1}'] if i + 1 < n and i % 2 == 0 else []})
    sch = {'rules': rules}
    text = L.render(sch, case.get('style', 0))
    try:
        model, ck = _build(text, {})
    except Exception as e:
        return r.bad(f'C13/valid-large/refused/{type(e).__name__}', f'{e!r} ({n} rules x {width} patterns)')
    try:
        ck2 = Checker.load(ck.save(), {})
    except Exception as e:
        return r.bad(f'C13/valid-large/load-refused/{type(e).__name__}', f'{e!r} ({n} rules x {width} patterns, {len(model.nodes)} nodes)')
    for i in case['probe']:
        i = i % (n - 1) // 2 * 2
        pkt = [L.comp_of(f'p{i}')] + [L.comp_of(f'v{j}') for j in range(width)]
        key = [L.comp_of(f'p{i + 1}')] + [L.comp_of(f'v{j}') for j in range(width)]
        for label, c in (('direct', ck), ('loaded', ck2)):
            try:
                with LineBudget(2_000_000):
                    ok = bool(c.check(pkt, key))
                    bad = bool(c.check(key, pkt))
            except Exception as e:
                return r.bad(f'C13/valid-large/query-raised/{type(e).__name__}', repr(e)[:200])
            if not ok or bad:
                return r.bad(f'C13/valid-large/{label}/wrong-answer', f'rule {i}: allowed={ok} reverse={bad}')
    r.key = (n, width, len(model.nodes) > 256)
    r.classes = ('valid-large', f'nodes>{min(len(model.nodes) // 128 * 128, 512)}')
    return r


def _query(r, tag, ck, sch, text):
    """Every query on an accepted model terminates (line budget) and does not fail internally."""
    words = G.name_alphabet(sch)
    comps = [L.comp_of(w) for w in words]
    names = [[], comps[:1], comps[:2], [comps[-1], comps[0]], comps[:3], [comps[0]] * 4, comps[1:5], [comps[-1]] * 5]
    # names that follow the literals of each rule (likely to go deep)
    for rl in sch['rules'][:4]:
        names.append([L.comp_of(it['lit']) if 'lit' in it else comps[0] for it in rl['name']][:5])
    for nm in names:
        try:
            with LineBudget(QUERY_BUDGET):
                list(ck.match(nm))
                ck.check(nm, names[(len(nm) + 1) % len(names)])
        except BudgetExceeded as e:
            r.bad(f'C13/{tag}/query-does-not-terminate', f'{e} on name of {len(nm)} components :: {text}')
            return False
        except RecursionError as e:
            r.bad(f'C13/{tag}/query-recursion', f'name of {len(nm)} components :: {text}')
            return False
        except (IndexError, KeyError, TypeError, AttributeError) as e:
            r.bad(f'C13/{tag}/query-internal-error/{type(e).__name__}', f'{e!r} name of {len(nm)} components :: {text}')
            return False
        except LvsModelError:
            pass
    return True


# ====================================== (c) corrupted models =========================================================
def ref_sanity(model):
    """Independent implementation of the six documented sanity rules -> name of the first broken rule or None."""
    v = model.version
    if v is None or not (bny.MIN_SUPPORTED_VERSION <= v <= bny.VERSION):
        return 'version'
    nodes = model.nodes
    n = len(nodes)
    for i, nd in enumerate(nodes):
        if nd.id != i:
            return 'node-id'
    if model.start_id is None or not (0 <= model.start_id < n):
        return 'edge-target'
    if model.named_pattern_cnt is None:
        return 'header-field'
    for nd in nodes:
        for e in list(nd.v_edges) + list(nd.p_edges):
            if e.dest is None or not (0 <= e.dest < n):
                return 'edge-target'
    for nd in nodes:
        for k in nd.sign_cons:
            if k is None or not (0 <= k < n):
                return 'signer-id'
    for nd in nodes:
        for pe in nd.p_edges:
            for cs in pe.cons_sets:
                for op in cs.options:
                    cnt = [op.value is not None, op.tag is not None, op.fn is not None].count(True)
                    if cnt != 1:
                        return 'option-shape'
    for nd in nodes:
        for e in list(nd.v_edges) + list(nd.p_edges):
            if nodes[e.dest].parent != nd.id:
                return 'parent-link'
    return None


def corruptions(model):
    """Yield (kind, on_root, apply_fn) for every single-field corruption, and for coherent permutations of the node table."""
    nodes = model.nodes
    n = len(nodes)
    yield 'start-id-absent', True, (lambda m: setattr(m, 'start_id', None))
    yield 'start-id>=n', True, (lambda m: setattr(m, 'start_id', len(m.nodes) + 3))
    yield 'named-pattern-count-absent', True, (lambda m: setattr(m, 'named_pattern_cnt', None))
    for val, nm in ((0, 'version=0'), (bny.VERSION + 1, 'version+1'), (bny.VERSION - 1, 'version-1'), (None, 'version-absent')):
        yield nm, True, (lambda m, val=val: setattr(m, 'version', val))
    # coherent multi-field corruptions: the node table permuted (two nodes exchange their POSITIONS, every id / parent /
    # destination field stays as it was, so the table is still a consistent tree when read by id - but id != position)
    others = [i for i in range(n) if i != model.start_id]
    for a in range(0, len(others), max(1, len(others) // 6)):
        for b in (a + 1, len(others) - 1):
            if 0 <= b < len(others) and others[a] != others[b]:
                def swap(m, i=others[a], j=others[b]):
                    m.nodes[i], m.nodes[j] = m.nodes[j], m.nodes[i]
                yield 'table-permuted', False, swap
    if n >= 4:
        def rotate(m):
            keep = m.nodes[model.start_id]
            rest = [x for k_, x in enumerate(m.nodes) if k_ != model.start_id]
            rest = rest[1:] + rest[:1]
            m.nodes[:] = rest[:model.start_id] + [keep] + rest[model.start_id:]
        yield 'table-rotated', False, rotate
    for i, nd in enumerate(nodes):
        root = i == model.start_id
        yield 'node-id+1', root, (lambda m, i=i: setattr(m.nodes[i], 'id', m.nodes[i].id + 1))
        if i > 0:
            yield 'node-id=0', root, (lambda m, i=i: setattr(m.nodes[i], 'id', 0))
        if root:
            # the root's own parent field (normally absent): no sanity rule mentions it, but queries must still terminate
            yield 'root-parent=self', True, (lambda m, i=i: setattr(m.nodes[i], 'parent', i))
            if n > 1:
                yield 'root-parent=other', True, (lambda m, i=i: setattr(m.nodes[i], 'parent', (i + 1) % n))
        if not root:
            yield 'parent-absent', nd.parent == model.start_id, (lambda m, i=i: setattr(m.nodes[i], 'parent', None))
            wrong = (nd.parent + 1) % n
            if wrong == i:
                wrong = (wrong + 1) % n
            if wrong != nd.parent:
                yield 'parent-wrong', nd.parent == model.start_id, (lambda m, i=i, w=wrong: setattr(m.nodes[i], 'parent', w))
        for which in ('v_edges', 'p_edges'):
            for ei, e in enumerate(getattr(nd, which)):
                def setdest(m, i=i, which=which, ei=ei, d=None):
                    getattr(m.nodes[i], which)[ei].dest = d
                sibs = [x.dest for x in list(nd.v_edges) + list(nd.p_edges) if x.dest != e.dest]
                anc = nd.parent
                targets = {'dest>=n': n, 'dest-absent': None, 'dest-self': i, 'dest-root': model.start_id,
                           'dest-far': n + 1000}
                if sibs:
                    targets['dest-sibling'] = sibs[0]
                if anc is not None:
                    targets['dest-ancestor'] = anc
                cousin = next((j for j in range(n) if j not in (i, e.dest) and nodes[j].parent not in (i, None)), None)
                if cousin is not None:
                    targets['dest-cousin'] = cousin
                for nm, d in targets.items():
                    if d == e.dest:
                        continue
                    yield nm, root, (lambda m, f=setdest, d=d: f(m, d=d))
        for si in range(len(nd.sign_cons)):
            yield 'signer>=n', root, (lambda m, i=i, si=si: m.nodes[i].sign_cons.__setitem__(si, n + si))
        for ei, pe in enumerate(nd.p_edges):
            for ci, cs in enumerate(pe.cons_sets):
                for oi, op in enumerate(cs.options):
                    def opt(m, i=i, ei=ei, ci=ci, oi=oi):
                        return m.nodes[i].p_edges[ei].cons_sets[ci].options[oi]

                    def none_set(m, opt=opt):
                        o = opt(m)
                        o.value, o.tag, o.fn = None, None, None

                    def two_set(m, opt=opt):
                        o = opt(m)
                        if o.value is None:
                            o.value = b'\x08\x01a'
                        else:
                            o.tag = 1
                    yield 'option-none-set', root, none_set
                    yield 'option-two-set', root, two_set


def _clone(model):
    return bny.LvsModel.parse(bytes(model.encode()))


def run_corrupt(case):
    r = Result()
    sch = case['schema']
    fns = G.user_fns()
    if chain_count(sch) > MAX_CHAINS // 2:
        r.discarded = True
        return r
    text = L.render(sch, 0)
    try:
        model, _ck = _build(text, fns)
    except Exception:
        r.discarded = True
        return r
    wire = bytes(model.encode())
    allc = list(corruptions(model))
    stride = max(1, len(allc) // 250)
    keys = set()
    classes = ['corrupt']
    for idx, (kind, on_root, fn) in enumerate(allc):
        if idx % stride != case.get('salt', 0) % stride:
            continue
        m = bny.LvsModel.parse(wire)
        try:
            fn(m)
        except Exception:
            continue
        broken = ref_sanity(m)
        for via in ('object', 'bytes'):
            try:
                if via == 'object':
                    ck = Checker(m, fns)
                else:
                    try:
                        data = bytes(m.encode())
                    except Exception:
                        break      # not encodable: only the object path applies
                    m2 = bny.LvsModel.parse(data)
                    broken = ref_sanity(m2)
                    ck = Checker.load(data, fns)
                outcome = 'accepted'
            except LvsModelError:
                outcome = 'LvsModelError'
            except SemanticError:
                outcome = 'SemanticError'
            except RecursionError:
                outcome = 'RecursionError'
            except Exception as e:
                outcome = type(e).__name__
            classes.append(f'{kind}->{outcome}')
            if outcome not in ('accepted', 'LvsModelError'):
                r.bad(f'C13/corrupt/{kind}/wrong-exception/{outcome}/{via}', f'broken rule: {broken} :: {text}')
                break
            if broken is not None and outcome == 'accepted':
                r.bad(f'C13/corrupt/{kind}/accepted-despite-broken-rule/{broken}/{"root-child" if on_root else "deeper"}',
                      f'via {via} :: {text}')
                break
            if outcome == 'accepted':
                if not _query(r, f'corrupt/{kind}', ck, sch, text):
                    break
        if r.violations:
            break
        if not on_root:
            keys.add((kind, broken))
    r.key = (sorted(map(str, keys)), len(model.nodes) // 4) if keys else None
    r.classes = tuple(classes)
    return r


def _case(bias=False):
    return st.fixed_dictionaries({'schema': G.schema(signing_bias=bias, max_rules=5), 'style': st.integers(0, 5),
                                  'salt': st.integers(0, 1000)})


SUBCHECKS = {
    'static': SubCheck(run_static, strategy=lambda tier: _case(), examples={'quick': 120, 'thorough': 8000}),
    'valid': SubCheck(run_valid, strategy=lambda tier: _case(True), examples={'quick': 300, 'thorough': 15000}),
    'valid-templated': SubCheck(run_valid, strategy=lambda tier: st.fixed_dictionaries({'schema': G.templated_schema(),
                                                                                        'style': st.integers(0, 5)}),
                                examples={'quick': 150, 'thorough': 3000},
                                note='hand-shaped well-formed families (see C12 schemas-templated): they must compile, load and answer'),
    'valid-fixed': SubCheck(run_valid, enumerate=lambda tier: [
        {'schema': {'rules': rules}, 'style': style} for style in range(6) for rules in (
            [],
            # a temporary rule is the only one that refers to another rule (upper- and lower-case identifiers sort differently)
            [{'id': '#KEY', 'name': [{'lit': 'K'}, {'pat': '_'}], 'cons': [], 'sign': []},
             {'id': '#_t', 'name': [{'lit': 'a'}, {'ref': '#KEY'}], 'cons': [], 'sign': []},
             {'id': '#r0', 'name': [{'lit': 'b'}, {'pat': 'x'}], 'cons': [], 'sign': ['#KEY']}],
            [{'id': '#key', 'name': [{'lit': 'K'}, {'pat': '_'}], 'cons': [], 'sign': []},
             {'id': '#_t', 'name': [{'lit': 'a'}, {'ref': '#key'}], 'cons': [], 'sign': []},
             {'id': '#Z', 'name': [{'lit': 'b'}, {'pat': 'x'}], 'cons': [], 'sign': ['#key']}],
        )], exhaustive={'quick': True, 'thorough': True}, note='a few fixed valid schemas: empty, temporary rule as the only referrer'),
    'valid-large': SubCheck(run_valid_large, strategy=lambda tier: st.fixed_dictionaries({
        'n_rules': st.integers(70, 150), 'width': st.integers(1, 4), 'style': st.integers(0, 5),
        'probe': st.lists(st.integers(0, 200), min_size=2, max_size=5)}), examples={'quick': 24, 'thorough': 400},
        note='70..150 rules: node ids / tags beyond one octet'),
    'corrupt': SubCheck(run_corrupt, strategy=lambda tier: _case(True), examples={'quick': 80, 'thorough': 6000}),
}
