"""C10 - link-layer envelopes are transparent: Nack, PIT token, wrapped packets."""
from hypothesis import strategies as st

from .. import pkt as P
from ..core import Result, SubCheck
from ..refs import tlv as T
from ..sim import net
from ..sim.appsim import AppSim, exc_site
from .c03_pit import _outcome_label, _verdict

PROPERTY_ID = 'C10'
RULE = ('Histories of express / data / nack / fragmented-envelope / incoming interest (with PIT token 0..40 B or none) / reply / advance, '
        'each run twice on fresh apps: once with every network packet in its minimal form (bare, or LpPacket{PitToken,Fragment} when a '
        'token is present) and once wrapped by an independent encoder in an LpPacket with a drawn subset of optional headers '
        '(CongestionMark, IncomingFaceId, NextHopFaceId, CachePolicy, TxSequence, Ack, NonDiscovery, PrefixAnnouncement, HopCount, '
        'unassigned types of both parities) in ascending type order (a third of the wrapped runs with the ndn loggers at DEBUG). Oracles: metamorphic equality of outcomes, handler calls and '
        'face output; Nack => exactly the named pending Interests finish with InterestNack.reason == reason (0..2^64-1; absent reason '
        '=> None or 0); fragmented envelopes have no effect; reply to a tokened Interest strict-decodes as LpPacket{PitToken == token, '
        'Fragment == reply bytes}, bare otherwise. Non-trivial = >=2 tokened Interests answered out of order, or >=2 optional headers, '
        'or reason >= 2^32; distinct key = (front-end, abstract trace, flags).')
ASSUMPTIONS = [
    'header fields are emitted in ascending TLV-TYPE order with Fragment last (what NFD / ndn-cxx send and require)',
    'token clause exercised on appv2 only (the legacy front-end has no reply callback; its replies are bare)',
    'FragCount >= 2 marks a fragmented envelope',
]

REASONS = [None, 0, 50, 100, 150, 151, 255, 256, 2 ** 32 - 1, 2 ** 32, 2 ** 32 + 1, 2 ** 64 - 1]
KNOWN_HEADERS = {
    0x54: lambda v: T.enc_nni(v % 256),             # HopCount
    0x032C: lambda v: T.enc_nni(v),                 # IncomingFaceId
    0x0330: lambda v: T.enc_nni(v),                 # NextHopFaceId
    0x0334: lambda v: T.enc_tlv(0x0335, T.enc_nni(1)),   # CachePolicy{NoCache}
    0x0340: lambda v: T.enc_nni(v % 4),             # CongestionMark
    0x0344: lambda v: T.enc_nni(v).rjust(8, b'\0'),  # Ack
    0x0348: lambda v: T.enc_nni(v).rjust(8, b'\0'),  # TxSequence
    0x034C: lambda v: b'',                          # NonDiscovery
    0x0350: lambda v: bytes([v % 256]) * 3,         # PrefixAnnouncement (opaque here)
}
UNKNOWN = [0x60, 0x63, 0x0352, 0x0353, 0x03E8, 0x03E9, 0xFD01, 0x10001]
ALPHA = ['a', 'b']


def _envspec():
    hdr = st.one_of(st.sampled_from(sorted(KNOWN_HEADERS)), st.sampled_from(UNKNOWN))
    return st.lists(st.tuples(hdr, st.integers(0, 2 ** 32)), max_size=4, unique_by=lambda t: t[0]).map(lambda l: [list(x) for x in l])


def _extra(spec):
    out = []
    for t, v in spec:
        out.append((t, KNOWN_HEADERS[t](v) if t in KNOWN_HEADERS else bytes([v % 256]) * (v % 5)))
        if t == 0x0344 and v % 2:
            # Ack is the one repeatable header: several TxSequences acknowledged at once
            out.append((t, KNOWN_HEADERS[t](v + 1)))
    return out


def _history(fe):
    nm = st.lists(st.sampled_from(ALPHA), min_size=1, max_size=2)
    # (an Interest may consist of nothing but the implicit digest of the Data it asks for)
    express = st.fixed_dictionaries({'op': st.just('express'), 'name': st.one_of(nm, nm, nm, nm, st.just([])), 'cbp': st.booleans(), 'life': st.sampled_from([50, 4000]),
                                     'digest': st.sampled_from([False, False, True])})
    data = st.fixed_dictionaries({'op': st.just('data'), 'of': st.integers(0, 5), 'ext': st.lists(st.sampled_from(ALPHA), max_size=1),
                                  'env': _envspec(), 'token': st.one_of(st.none(), st.binary(max_size=8).map(bytes.hex))})
    nack = st.fixed_dictionaries({'op': st.just('nack'), 'of': st.integers(0, 5), 'reason': st.sampled_from(REASONS), 'env': _envspec(),
                                  'token': st.one_of(st.none(), st.none(), st.binary(max_size=8).map(bytes.hex)),
                                  'reencoded': st.sampled_from([False, False, True])})
    frag = st.fixed_dictionaries({'op': st.just('frag'), 'of': st.integers(0, 5), 'kind': st.sampled_from(['data', 'nack', 'interest']),
                                  'fi': st.integers(0, 3), 'fc': st.integers(2, 4),
                                  'after': st.sampled_from([None, None, 'token', 'mark', 'payload'])})
    interest = st.fixed_dictionaries({'op': st.just('interest'), 'name': nm,
                                      'token': st.one_of(st.none(), st.binary(max_size=40).map(bytes.hex),
                                                         st.binary(min_size=1, max_size=8).map(bytes.hex),
                                                         # (long opaque tokens: their own Length needs three octets)
                                                         st.sampled_from([252, 253, 254, 300]).map(lambda n: (b'\xa5' * n).hex())),
                                      'env': _envspec(), 'params': st.sampled_from([False, False, True]),
                                      'life': st.sampled_from([4000, 4000, 4000, 50, 10])})
    reply = st.fixed_dictionaries({'op': st.just('reply'), 'k': st.integers(0, 7),
                                   'size': st.sampled_from([0, 0, 0, 300, 4000, 4096, 4200, 8800]),
                                   # the reply bytes are the application's business - e.g. a relay hands on what it received from
                                   # upstream, envelope (with the upstream's token) included
                                   'enveloped': st.sampled_from([None, None, None, None, '', 'aa', '0102030405060708']),
                                   'scribble_ctx': st.sampled_from([None, None, None, 'clear', 'edit'])})
    adv = st.fixed_dictionaries({'op': st.just('adv'), 'ms': st.sampled_from([0, 1, 10, 49, 51, 200])})
    ops = [express, data, data, nack, nack, frag, interest, interest, adv]
    if fe == 'v2':
        ops += [reply, reply, reply]
    free = st.tuples(st.lists(st.one_of(express, interest), min_size=1, max_size=4),
                     st.lists(st.one_of(*ops), min_size=2, max_size=18)).map(lambda t: t[0] + t[1])

    @st.composite
    def twins(draw):
        """Two Interests under ONE name that differ in their implicit digest (one has none); a Nack answers one of them, then the
        Data for the other arrives - too rare in free histories (four particular steps in order)."""
        n = draw(nm)
        first_digest = draw(st.booleans())
        core = [{'op': 'express', 'name': n, 'cbp': False, 'life': 4000, 'digest': first_digest},
                {'op': 'express', 'name': n, 'cbp': draw(st.booleans()), 'life': 4000, 'digest': not first_digest},
                {'op': 'nack', 'of': draw(st.integers(0, 1)), 'reason': draw(st.sampled_from(REASONS)), 'env': [], 'token': None, 'reencoded': False},
                {'op': 'adv', 'ms': draw(st.sampled_from([0, 1, 10]))},
                {'op': 'data', 'of': 0, 'ext': [], 'env': draw(_envspec()), 'token': None},
                {'op': 'data', 'of': 1, 'ext': [], 'env': [], 'token': None}]
        return core + draw(st.lists(st.one_of(*ops), max_size=4))
    return st.one_of(free, free, free, twins())


def _case(fe):
    return st.fixed_dictionaries({'frontend': st.just(fe), 'ops': _history(fe), 'debug_log': st.sampled_from([False, False, True])})


def _run(fe, ops, full, r, flags, trace):
    """Execute the history with minimal (full=False) or full envelopes. -> observation log"""
    sim = AppSim(fe)
    sim.start()
    obs = []
    try:
        ents = []
        calls = []
        hid = [0]

        def attach(prefix):
            hid[0] += 1
            my = hid[0]
            if fe == 'v2':
                def h(name, app_param, reply, ctx):
                    calls.append({'hid': my, 'name': [bytes(c) for c in name], 'reply': reply, 'ctx': ctx, 'n': 0})
                async def accept(_n, _s, _c):
                    from ndn.types import ValidResult
                    return ValidResult.PASS
                sim.vl.call(sim.app.attach_handler, prefix, h, accept)
            else:
                def h(name, param, app_param):
                    calls.append({'hid': my, 'name': [bytes(c) for c in name]})
                sim.vl.call(sim.app.set_interest_filter, prefix, h)
        attach([net.comp('h')])
        attach([net.comp('h'), net.comp('a')])

        def send(pkt, env, token=None, nack=False, reason=None, fi=None, fc=None, frag_after=None):
            if frag_after is not None:
                # a fragment whose sender wrote the fragmentation headers out of place (behind the PitToken / the CongestionMark /
                # the payload): it is a fragment all the same
                flags.add('fragment-headers-out-of-place')
                w = net.lp_wrap(pkt, nack_reason=reason, nack=nack, pit_token=b'\x07' if frag_after == net.PIT_TOKEN else None,
                                extra=[(0x0340, b'\x01')] if frag_after == 0x0340 else [], frag_index=fi, frag_count=fc,
                                frag_after=frag_after)
            elif full or nack or fi is not None:
                ex = _extra(env) if full else []
                # every other unassigned header type stands BEHIND the Fragment (ignored there as anywhere else)
                unknown = [e for e in ex if e[0] not in KNOWN_HEADERS]
                trail = unknown if sum(e[0] for e in ex) % 2 else [e for i, e in enumerate(ex) if e in unknown and i % 2 == 1]
                if trail:
                    flags.add('header-after-fragment')
                w = net.lp_wrap(pkt, nack_reason=reason, nack=nack, pit_token=token, extra=[e for e in ex if e not in trail],
                                frag_index=fi, frag_count=fc, trailing=trail)
            elif token is not None:
                w = net.lp_wrap(pkt, pit_token=token)
            else:
                w = pkt
            sim.deliver(w, 'task')

        for op in ops:
            k = op['op']
            if k == 'express':
                name = [net.comp(x) for x in op['name']]
                iname = name
                if not name and not op.get('digest'):
                    continue
                if op.get('digest'):
                    # Interest naming its Data by implicit digest (the Data this history sends for that name with no extension)
                    import hashlib
                    iname = name + [T.enc_tlv(1, hashlib.sha256(net.data_wire(name, content=b'c')).digest())]
                    flags.add('implicit-digest')
                h = sim.express(iname, lifetime=op['life'], can_be_prefix=op['cbp'], vlat=0.0, verdict=_verdict(fe, True))
                ents.append({'name': name, 'iname': iname, 'h': h, 'cbp': op['cbp'], 'd': h.t0_ms + op['life'], 'nacked': None})
                trace.append('E')
            elif k == 'data':
                if not ents:
                    continue
                e = ents[op['of'] % len(ents)]
                name = e['name'] + [net.comp(x) for x in op['ext']]
                if len(op['env']) >= 2:
                    flags.add('multi-header')
                send(net.data_wire(name, content=b'c'), op['env'], token=None if op['token'] is None else bytes.fromhex(op['token']))
                trace.append('D')
            elif k == 'nack':
                if not ents:
                    continue
                e = ents[op['of'] % len(ents)]
                if e['h'].wire is None:
                    continue
                now = sim.vl.now_ms()
                # reference: which pending Interests does this Nack name?
                for f in ents:
                    if f['iname'] == e['iname'] and f['h'].t0_ms <= now <= f['d'] + 1:
                        f.setdefault('nacks', []).append((op['reason'], now))
                        if f['h'].done_count == 0 and now < f['d'] - 1 and f['nacked'] is None:
                            f['nacked'] = (op['reason'], now)    # definitely pending: this Nack must finish it
                if op['reason'] is not None and op['reason'] >= 2 ** 32:
                    flags.add('big-reason')
                if len(op['env']) >= 2:
                    flags.add('multi-header')
                inner = e['h'].wire
                if op.get('reencoded'):
                    # the peer does not echo the captured bytes: it encodes the Interest again, with another Nonce (a
                    # retransmission it aggregated) - the Nack still NAMES the same Interest
                    si = P.strict_interest(inner)
                    inner = net.interest_wire(si['name'], can_be_prefix=si['can_be_prefix'], must_be_fresh=si['must_be_fresh'],
                                              nonce=((si['nonce'] or 0) + 1 + op['of']) % 2 ** 32, lifetime=si['lifetime'])
                    flags.add('nack-reencoded')
                send(inner, op['env'], nack=True, reason=op['reason'],
                     token=None if op.get('token') is None else bytes.fromhex(op['token']))
                trace.append('N')
            elif k == 'frag':
                if not ents:
                    continue
                e = ents[op['of'] % len(ents)]
                if e['h'].wire is None:
                    continue
                flags.add('fragmented')
                fi = op['fi'] % op['fc']
                fa = {None: None, 'token': net.PIT_TOKEN, 'mark': 0x0340, 'payload': net.FRAGMENT}[op.get('after')]
                if op['kind'] == 'data':
                    send(net.data_wire(e['name'], content=b'c'), [], fi=fi, fc=op['fc'], frag_after=fa)
                elif op['kind'] == 'nack':
                    send(e['h'].wire, [], nack=True, reason=50, fi=fi, fc=op['fc'], frag_after=fa)
                else:
                    send(net.interest_wire([net.comp('h'), net.comp('z')], nonce=1), [], fi=fi, fc=op['fc'], frag_after=fa)
                trace.append('F')
            elif k == 'interest':
                name = [net.comp('h')] + [net.comp(x) for x in op['name']]
                tok = None if op['token'] is None else bytes.fromhex(op['token'])
                before = len(calls)
                if len(op['env']) >= 2:
                    flags.add('multi-header')
                # (an Interest with ApplicationParameters goes through the handler's validator before it is delivered)
                t_arrival = sim.vl.now_ms()
                send(net.interest_wire(name, nonce=5, lifetime=op.get('life', 4000), app_param=b'q' if op.get('params') and fe == 'v2' else None),
                     op['env'], token=tok)
                sim.vl.advance(0)
                for c in calls[before:]:
                    c['token'] = tok
                    c['deadline'] = t_arrival + op.get('life', 4000)
                trace.append('I')
            elif k == 'reply':
                held = [c for c in calls if 'reply' in c]
                if not held:
                    continue
                c = held[op['k'] % len(held)]
                data = net.data_wire(c['name'], content=b'r%d' % c['n'] + b'.' * op.get('size', 0))
                if op.get('size', 0) >= 4096:
                    flags.add('big-reply')
                if op.get('scribble_ctx') and isinstance(c.get('ctx'), dict):
                    # the context handed to the handler is the handler's to edit (it may keep notes in it, clear it, pass it on): the
                    # reply goes to the Interest that was received, whatever the dict says by now
                    if op['scribble_ctx'] == 'clear':
                        c['ctx'].clear()
                    else:
                        c['ctx'].update({'pit_token': b'\xee\xee', 'deadline': 0, 'note': 'mine'})
                    flags.add('context-edited-before-reply')
                if op.get('enveloped') is not None:
                    data = net.lp_wrap(data, pit_token=bytes.fromhex(op['enveloped']))
                    flags.add('reply-is-an-envelope')
                c['n'] += 1
                before = len(sim.face.sent)
                try:
                    sim.vl.call(c['reply'], data)
                except Exception as e:
                    r.bad(f'C10/{fe}/reply-raised/{exc_site(e)}', repr(e))
                    return None
                out = sim.face.sent[before:]
                tok = c.get('token')
                if held.index(c) != len(held) - 1 and tok is not None:
                    flags.add('out-of-order-token')
                now = sim.vl.now_ms()
                if now > c.get('deadline', now) + 1:
                    # the Interest's lifetime is over: nothing is sent any more, with or without a token
                    flags.add('reply-after-deadline')
                    if out:
                        r.bad(f'C10/{fe}/reply-sent-after-deadline/{"tokened" if tok is not None else "bare"}',
                              f'now={now} deadline={c["deadline"]}')
                    trace.append('r')
                    continue
                if now >= c.get('deadline', now + 9) - 1:
                    trace.append('R')
                    continue          # at the deadline instant either behaviour is accepted
                if len(out) != 1:
                    r.bad(f'C10/{fe}/reply-output-count', f'{len(out)} packets for one reply')
                elif tok is None:
                    if out[0] != data:
                        r.bad(f'C10/{fe}/reply-not-bare', f'{out[0].hex()[:80]}')
                else:
                    try:
                        el = T.single(out[0])
                        fields = T.walk(out[0], el[2], el[3])
                        toks = [out[0][f[2]:f[3]] for f in fields if f[0] == net.PIT_TOKEN]
                        frags = [out[0][f[2]:f[3]] for f in fields if f[0] == net.FRAGMENT]
                        if el[0] != net.LP_PACKET or toks != [tok] or frags != [data] or fields[-1][0] != net.FRAGMENT:
                            r.bad(f'C10/{fe}/reply-envelope', f'token {tok.hex()} -> tokens {[t.hex() for t in toks]} '
                                  f'fragment-ok={frags == [data]} wire={out[0].hex()[:100]}')
                    except T.Malformed as e:
                        r.bad(f'C10/{fe}/reply-envelope-malformed', f'{e} {out[0].hex()[:100]}')
                trace.append('R')
            elif k == 'adv':
                sim.vl.advance(op['ms'] / 1000)
                trace.append('a')
        sim.vl.advance(6.0)
        # absolute oracle for Nacks
        for i, e in enumerate(ents):
            lab = _outcome_label(e['h'])
            if e['nacked'] is not None and lab != 'data' and not lab.startswith('exc:InterestNack'):
                reason, at = e['nacked']
                # only a demand if no Data could have satisfied it before the Nack (then it would be 'data')
                r.bad(f'C10/{fe}/nack-not-delivered/reason={"absent" if reason is None else "present"}',
                      f'interest {i} {lab}; Nack(reason={reason}) at {at}')
            if lab.startswith('exc:InterestNack'):
                got = e['h'].outcome[2].get('reason')
                if e['nacked'] is not None:
                    cands = [e['nacked'][0]]          # definitely pending when it arrived: exactly this reason
                else:
                    cands = [x[0] for x in e.get('nacks', [])]   # tie with the deadline: any Nack sent for it
                if not cands:
                    r.bad(f'C10/{fe}/nack-for-unnamed-interest', f'interest {i} {lab}')
                elif not any(got == w or (w is None and got in (None, 0)) for w in cands):
                    r.bad(f'C10/{fe}/nack-reason-altered/{"big" if max(x or 0 for x in cands) >= 2 ** 32 else "small"}',
                          f'sent {cands} got {got}')
        if sim.receive_errors:
            r.bad(f'C10/{fe}/receive-raised/{sim.receive_errors[0].split(":")[0]}', sim.receive_errors[0])
        errs = sim.vl.collect_errors()
        if errs:
            r.bad(f'C10/{fe}/unhandled-loop-error/{errs[0]["type"]}', str(errs[:2]))
        obs = {'outcomes': [(_outcome_label(e['h']), e['h'].done_ms) for e in ents],
               'calls': [(c['hid'], c['name']) for c in calls],
               'sent': list(sim.face.sent)}
    finally:
        sim.finish()
        sim.close()
    return obs


def run_case(case):
    r = Result()
    fe = case['frontend']
    flags, trace = set(), []
    a = _run(fe, case['ops'], False, r, set(), [])
    if a is None:
        return r
    # (the wrapped run of some cases has the library's loggers at DEBUG: observable behaviour must not depend on the log level)
    with net.debug_logging(bool(case.get('debug_log'))):
        b = _run(fe, case['ops'], True, r, flags, trace)
    if b is None:
        return r
    if case.get('debug_log'):
        flags.add('debug-log')
    for part in ('outcomes', 'calls', 'sent'):
        if a[part] != b[part]:
            r.bad(f'C10/{fe}/envelope-not-transparent/{part}', f'minimal: {str(a[part])[:250]}  wrapped: {str(b[part])[:250]}')
            break
    nontrivial = bool(flags & {'multi-header', 'big-reason', 'out-of-order-token', 'implicit-digest', 'big-reply', 'reply-is-an-envelope'})
    r.key = (fe, ''.join(trace)[:24], tuple(sorted(flags))) if nontrivial else None
    r.classes = (fe,) + tuple(sorted(flags))
    return r


SUBCHECKS = {
    'v2': SubCheck(run_case, strategy=lambda tier: _case('v2'), examples={'quick': 1500, 'thorough': 50000}),
    'legacy': SubCheck(run_case, strategy=lambda tier: _case('legacy'), examples={'quick': 1000, 'thorough': 30000}),
}
