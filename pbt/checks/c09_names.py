"""C09 - URI / component list / wire representations of names are mutually consistent."""
import itertools
import struct

from hypothesis import strategies as st

from ndn.encoding import Name, Component

from ..core import Result, SubCheck
from ..refs import tlv as T
from .. import strats as S

PROPERTY_ID = 'C09'
RULE = ('names of 0..8 components (types 1..65535 biased to 1,2,8,32,50..58,252..256,65535; values biased to reserved URI '
        'bytes, digests, typed numbers at width edges) and pairs sharing a prefix and differing in one component '
        '(type/length/one byte); plus the complete grid 256 byte values x 3 positions x 4 types. Oracles: independent '
        'TLV encoder, independent URI renderer, inverse laws, component-wise prefix test, independent canonical order. '
        'Non-trivial = contains a reserved/non-printable byte, a type>=253, a typed number, or a pair with non-empty '
        'common prefix; distinct key = (type classes, length classes, byte classes, relation).')
ASSUMPTIONS = [
    'URI syntax is the one the library documents (no "..." padding for empty components, upper-case percent escapes)',
    'ordering demand only for components/names produced by library constructors (bytearray based)',
    'to_str round trip demanded only when typed-number components (seg/off/v/t/seq) hold a canonical NonNegativeInteger',
]

UNRESERVED = set(b'abcdefghijklmnopqrstuvwxyzABCDEFGHIJKLMNOPQRSTUVWXYZ0123456789-._~')
ALT = {50: 'seg', 52: 'off', 54: 'v', 56: 't', 58: 'seq'}


def ref_comp_canonical(typ, val):
    body = ''.join(chr(b) if b in UNRESERVED else f'%{b:02X}' for b in val)
    return body if typ == 8 else f'{typ}={body}'


def ref_name_canonical(comps):
    ret = '/' + '/'.join(ref_comp_canonical(t, v) for t, v in comps)
    if comps and comps[-1] == (8, b''):
        ret += '/'
    return ret


def canonical_nni(val):
    if len(val) not in (1, 2, 4, 8):
        return False
    return T.enc_nni(int.from_bytes(val, 'big')) == val


def ref_comp_alt(typ, val):
    if typ == 1:
        return 'sha256digest=' + val.hex()
    if typ == 2:
        return 'params-sha256=' + val.hex()
    if typ in ALT:
        return f'{ALT[typ]}={int.from_bytes(val, "big")}'
    return ref_comp_canonical(typ, val)


def ref_cmp_comp(a, b):
    ka = (a[0], len(a[1]), a[1])
    kb = (b[0], len(b[1]), b[1])
    return (ka > kb) - (ka < kb)


def ref_cmp_name(a, b):
    for x, y in zip(a, b):
        c = ref_cmp_comp(x, y)
        if c:
            return c
    return (len(a) > len(b)) - (len(a) < len(b))


def _classify(comps):
    tc, lc, bc = set(), set(), set()
    nontrivial = False
    for t, v in comps:
        tc.add('dig' if t in (1, 2) else 'gen' if t == 8 else 'num' if t in ALT else 'big' if t >= 253 else 'oth')
        lc.add(0 if not v else 1 if len(v) < 32 else 2 if len(v) < 253 else 3)
        if any(b not in UNRESERVED for b in v):
            bc.add('resv')
            nontrivial = True
        if t >= 253 or t in ALT:
            nontrivial = True
    return nontrivial, (tuple(sorted(tc)), tuple(sorted(lc)), tuple(sorted(bc)))


def run_case(case):
    r = Result()
    a = [(c[0], bytes.fromhex(c[1])) for c in case['a']]
    b = [(c[0], bytes.fromhex(c[1])) for c in case['b']] if case.get('b') is not None else None
    rep = case.get('rep', 0)
    nt, key = _classify(a)
    try:
        _check_single(r, a, rep)
        if b is not None:
            common = 0
            for x, y in zip(a, b):
                if x != y:
                    break
                common += 1
            rel = ref_cmp_name(a, b)
            _check_pair(r, a, b)
            if common > 0:
                nt = True
            key = key + (min(common, 3), rel, len(a) - len(b) if abs(len(a) - len(b)) < 2 else 9)
    except Exception as e:  # any library exception on a valid name is a violation of C09
        import traceback
        tb = traceback.extract_tb(e.__traceback__)
        where = next((f'{f.name}' for f in reversed(tb) if '/ndn/' in f.filename), '?')
        r.bad(f'C09/exception/{type(e).__name__}@{where}', f'{e!r} on {case}')
    r.key = key if nt else None
    r.classes = ('pair' if b is not None else 'single', f'len{min(len(a), 4)}', 'nontrivial' if nt else 'trivial')
    return r


def _lib_comps(comps):
    """Build components with library constructors (bytearray)."""
    return [Component.from_bytes(v, t) for t, v in comps]


def _raw_unicode(typ, val):
    """URI text of a component whose value is UTF-8 text, with the non-ASCII characters written as they are (not escaped)"""
    try:
        text = val.decode('utf-8')
    except UnicodeDecodeError:
        return ref_comp_canonical(typ, val)
    if not any(ord(c) >= 0x80 for c in text) or not all(ord(c) >= 0x80 or c.encode()[0] in UNRESERVED for c in text):
        return ref_comp_canonical(typ, val)
    return text if typ == 8 else f'{typ}={text}'


def _recase(uri, mode):
    """The same URI with its percent escapes spelled in lower case (mode 0) or with one lower- and one upper-case digit"""
    out = []
    i = 0
    while i < len(uri):
        if uri[i] == '%' and i + 2 < len(uri) + 0 and i + 3 <= len(uri):
            a, b = uri[i + 1], uri[i + 2]
            if mode == 0:
                a, b = a.lower(), b.lower()
            elif mode == 1:
                a, b = a.lower(), b.upper()
            else:
                a, b = a.upper(), b.lower()
            out.append('%' + a + b)
            i += 3
        else:
            out.append(uri[i])
            i += 1
    return ''.join(out)


def _scribble(result):
    try:
        for c in result:
            if isinstance(c, bytearray) and len(c):
                c[-1] ^= 0x20
        if isinstance(result, list):
            result.append(b'\x08\x01!')
    except Exception:
        pass


def _check_single(r, comps, rep):
    enc = [T.enc_tlv(t, v) for t, v in comps]
    wire_ref = T.enc_tlv(7, b''.join(enc))
    lib = _lib_comps(comps)
    # component constructor == independent encoder
    for l, e in zip(lib, enc):
        if bytes(l) != e:
            r.bad('C09/component-encoding', f'Component.from_bytes -> {bytes(l).hex()} expected {e.hex()}')
            return
    for (t, v), e in zip(comps, enc):
        if Component.get_type(e) != t or bytes(Component.get_value(e)) != v:
            r.bad('C09/component-accessors', f'{e.hex()} -> type {Component.get_type(e)} value {bytes(Component.get_value(e)).hex()}')
    # wire
    w = Name.to_bytes(enc)
    if w != wire_ref:
        r.bad('C09/to_bytes', f'{w.hex()} != {wire_ref.hex()}')
    back = Name.from_bytes(wire_ref)
    if [bytes(c) for c in back] != enc:
        r.bad('C09/from_bytes', f'{[bytes(c).hex() for c in back]} != {[e.hex() for e in enc]}')
    # the same into a caller's buffer at an offset
    k = rep % 4
    buf = bytearray(b'\xaa' * (k + len(wire_ref) + 2))
    try:
        Name.encode(enc, buf, k)
        if bytes(buf) != b'\xaa' * k + wire_ref + b'\xaa\xaa':
            r.bad('C09/encode-into-buffer', f'offset {k}: {bytes(buf).hex()[:80]} expected {wire_ref.hex()[:80]} inside 0xaa margins')
    except Exception as e:
        r.bad(f'C09/encode-into-buffer/raised/{type(e).__name__}', repr(e)[:200])
    if Name.encoded_length(enc) != len(wire_ref):
        r.bad('C09/encoded_length', f'{Name.encoded_length(enc)} != {len(wire_ref)}')
    # canonical URI
    cu = Name.to_canonical_uri(enc)
    cu_ref = ref_name_canonical(comps)
    if cu != cu_ref:
        r.bad('C09/canonical-uri-text', f'{cu!r} != {cu_ref!r}')
    fs = Name.from_str(cu)
    if [bytes(c) for c in fs] != enc:
        r.bad('C09/canonical-uri-roundtrip', f'from_str({cu!r}) -> {[bytes(c).hex() for c in fs]} expected {[e.hex() for e in enc]}')
    _scribble(fs)      # what a conversion returns belongs to the caller: editing it in place must not change later conversions
    # alternate URI
    su = Name.to_str(enc)
    long_number = any(t in ALT and len(v) > 1000 for t, v in comps)
    if long_number:
        # a typed-number component too long for a decimal rendering: any rendering will do that reads back as the same number
        try:
            fs = Name.from_str(su)
        except (ValueError, struct.error):
            fs = None       # (reading back a number wider than 8 octets is not promised; rendering it must not fail)
        same = fs is None or len(fs) == len(enc) and all(
            Component.get_type(a) == t and (int.from_bytes(bytes(Component.get_value(a)), 'big') == int.from_bytes(v, 'big')
                                            if t in ALT else bytes(a) == e) for a, e, (t, v) in zip(fs, enc, comps))
        if not same:
            r.bad('C09/uri-roundtrip/long-number', f'{su[:80]!r}')
    else:
        su_ref = '/' + '/'.join(ref_comp_alt(t, v) for t, v in comps) + ('/' if comps and comps[-1] == (8, b'') else '')
        if su != su_ref:
            r.bad('C09/uri-text', f'{su!r} != {su_ref!r}')
    if all(canonical_nni(v) for t, v in comps if t in ALT):
        fs = Name.from_str(su)
        if [bytes(c) for c in fs] != enc:
            r.bad('C09/uri-roundtrip', f'from_str({su!r}) -> {[bytes(c).hex() for c in fs]} expected {[e.hex() for e in enc]}')
    # component level URI
    for (t, v), e in zip(comps, enc):
        cs = Component.to_canonical_uri(e)
        if cs != ref_comp_canonical(t, v):
            r.bad('C09/component-canonical-uri', f'{cs!r}')
        if bytes(Component.from_str(cs)) != e:
            r.bad('C09/component-uri-roundtrip', f'{cs!r} -> {bytes(Component.from_str(cs)).hex()} expected {e.hex()}')
        if t in ALT and canonical_nni(v):
            n = int.from_bytes(v, 'big')
            if Component.to_number(e) != n or bytes(Component.from_number(n, t)) != e:
                r.bad('C09/component-number', f'{e.hex()}')
    # every accepted input form normalises to the same components
    forms = {
        'list-bytes': lambda: list(enc),
        'list-bytearray': lambda: [bytearray(e) for e in enc],
        'list-memoryview': lambda: [memoryview(e) for e in enc],
        'tuple': lambda: tuple(enc),
        'generator': lambda: (e for e in enc),
        'uri-canonical': lambda: cu_ref,
        'uri-no-leading-slash': lambda: cu_ref[1:] if comps and not cu_ref[1:].startswith('/') and not cu_ref.endswith('/') else cu_ref,
        # ':' needs no escaping; written raw, and without the leading slash, the text may LOOK like it starts with a URI scheme
        'uri-raw-colon-no-leading-slash': lambda: cu_ref[1:].replace('%3A', ':') if comps and not cu_ref[1:].startswith('/')
        and not cu_ref.endswith('/') else cu_ref,
        'uri-raw-unicode': lambda: '/' + '/'.join(_raw_unicode(t, v) for t, v in comps) if comps and comps[-1] != (8, b'') else cu_ref,
        'list-str-raw-unicode': lambda: [_raw_unicode(t, v) for t, v in comps],
        'uri-lower-case-escapes': lambda: _recase(cu_ref, 0),
        'uri-mixed-case-escapes': lambda: _recase(cu_ref, 1 + rep % 2),
        'list-str': lambda: [ref_comp_canonical(t, v) for t, v in comps],
        'list-str-mixed-case-escapes': lambda: [_recase(ref_comp_canonical(t, v), 1 + rep % 2) for t, v in comps],
        'list-mixed': lambda: [ref_comp_canonical(t, v) if (i + rep) % 2 else enc[i] for i, (t, v) in enumerate(comps)],
        'wire-bytes': lambda: wire_ref,
        'wire-bytearray': lambda: bytearray(wire_ref),
        'wire-memoryview': lambda: memoryview(wire_ref),
    }
    for fname, mk in forms.items():
        got = Name.normalize(mk())
        if [bytes(c) for c in got] != enc:
            r.bad(f'C09/normalize/{fname}', f'{[bytes(c).hex() for c in got]} expected {[e.hex() for e in enc]}')
        if fname.startswith('uri') or fname.startswith('list-str') or fname == 'list-mixed':
            _scribble(got)
        if Name.to_bytes(mk()) != wire_ref:
            r.bad(f'C09/to_bytes-form/{fname}', '')
    # prefix: every prefix of a is a prefix; reflexive
    for k in range(len(enc) + 1):
        if not Name.is_prefix(enc[:k], enc):
            r.bad('C09/is_prefix-own-prefix', f'k={k}')
        if not Name.is_prefix(T.enc_tlv(7, b''.join(enc[:k])), wire_ref) or not Name.is_prefix(T.enc_tlv(7, b''.join(enc[:k])), enc):
            r.bad('C09/is_prefix-own-prefix/wire', f'k={k} of {len(enc)}, name value {len(wire_ref)} octets')
        if k < len(enc) and Name.is_prefix(enc, enc[:k]):
            r.bad('C09/is_prefix-longer', f'k={k}')


def _check_pair(r, a, b):
    ea = [T.enc_tlv(t, v) for t, v in a]
    eb = [T.enc_tlv(t, v) for t, v in b]
    want = len(a) <= len(b) and all(x == y for x, y in zip(a, b))
    forms_a = [ea, T.enc_tlv(7, b''.join(ea)), ref_name_canonical(a), [ref_comp_canonical(t, v) for t, v in a],
               [ref_comp_canonical(t, v) if i % 2 else ea[i] for i, (t, v) in enumerate(a)], tuple(ea)]
    forms_b = [eb, [memoryview(e) for e in eb], ref_name_canonical(b), [ref_comp_canonical(t, v) for t, v in b],
               [eb[i] if i % 2 else ref_comp_canonical(t, v) for i, (t, v) in enumerate(b)],
               T.enc_tlv(7, b''.join(eb)), bytearray(T.enc_tlv(7, b''.join(eb)))]
    for fa in forms_a:
        for fb in forms_b:
            if bool(Name.is_prefix(fa, fb)) != want:
                r.bad('C09/is_prefix', f'is_prefix({fa!r},{fb!r}) != {want}')
                return
    # ordering on library-produced values
    la, lb = _lib_comps(a), _lib_comps(b)
    c = ref_cmp_name(a, b)
    ops = {'<': la < lb, '<=': la <= lb, '>': la > lb, '>=': la >= lb, '==': la == lb, '!=': la != lb}
    want_ops = {'<': c < 0, '<=': c <= 0, '>': c > 0, '>=': c >= 0, '==': c == 0, '!=': c != 0}
    if ops != want_ops:
        r.bad('C09/name-order', f'{ops} expected {want_ops} for {a} vs {b}')
    sa, sb = Name.from_str(ref_name_canonical(a)), Name.from_str(ref_name_canonical(b))
    if (sa < sb, sa == sb, sa > sb) != (c < 0, c == 0, c > 0):
        r.bad('C09/name-order-from_str', f'{a} vs {b}')
    for x, y, lx, ly in zip(a, b, la, lb):
        cc = ref_cmp_comp(x, y)
        got = (lx < ly, lx <= ly, lx == ly, lx != ly, lx > ly, lx >= ly)
        wantc = (cc < 0, cc <= 0, cc == 0, cc != 0, cc > 0, cc >= 0)
        if got != wantc:
            r.bad('C09/component-order', f'{x} vs {y}: {got} expected {wantc}')
            break


@st.composite
def _pair(draw):
    a = draw(S.name(0, 8))
    if draw(st.integers(0, 7)) == 0:
        # one long component whose URI text is much longer than its value (many escaped bytes): lengths 80..260
        n = draw(st.sampled_from([84, 85, 100, 126, 127, 200, 250, 251, 252, 253, 254, 260]))
        v = draw(st.binary(min_size=n, max_size=n))
        a.insert(draw(st.integers(0, len(a))), [draw(st.sampled_from([8, 8, 32, 300])), v.hex()])
        a = a[:8]
        if draw(st.booleans()):
            # ... sized so that the VALUE of the whole name has 249..254 octets (where its Length grows to three octets)
            target = draw(st.sampled_from([249, 250, 251, 252, 253, 254]))
            k_ = next((i for i, c in enumerate(a) if len(c[1]) // 2 == n), None)
            others = sum(len(S.comp_bytes(c)) for i, c in enumerate(a) if i != k_)
            n2 = target - others - len(T.enc_num(a[k_][0])) - 1 if k_ is not None else 0
            if 0 < n2 < 253:
                a[k_] = [a[k_][0], v.hex()[:2 * n2].ljust(2 * n2, '0')]
    elif draw(st.integers(0, 9)) == 0:
        # magnitudes between the usual boundaries: one component of 1.7k..8k octets (any type, typed numbers included), or a
        # name of 17..100 one-octet components
        if draw(st.booleans()):
            n = draw(st.sampled_from([1700, 1786, 1787, 2000, 3000, 8000] * 4 + [65535, 65536, 70000]))
            fill = draw(st.integers(0, 255))
            a.insert(draw(st.integers(0, len(a))), [draw(st.sampled_from([8, 50, 54, 58, 32, 52])),
                                                    (bytes([fill, (fill + 1) % 256]) * (n // 2 + 1))[:n].hex()])
            a = a[:4]
        else:
            a = [[8, bytes([97 + i % 26]).hex()] for i in range(draw(st.sampled_from([17, 33, 40, 100])))]
    if draw(st.integers(0, 5)) == 0:
        # values that are UTF-8 text with characters beyond ASCII (U+0080..U+00FF, U+0100.., astral)
        txt = draw(st.sampled_from(['\u00f6', '\u00e9\u00bf', '\u0080', '\u00ff', 'a\u00f6b', '\u0100', '\u65e5\u672c', '\U0001f600', 'x\u00a0', 'Ame\u0301lie', '\u212b', '\u2126x', '\u1100\u1161', 'q\u0323\u0307', '\uf900']))
        a.insert(draw(st.integers(0, len(a))), [draw(st.sampled_from([8, 8, 32])), txt.encode('utf-8').hex()])
        a = a[:8]
    mode = draw(st.integers(0, 5))
    b = None
    if mode == 0:
        pass
    elif mode == 1:
        b = draw(S.name(0, 8))
    else:
        k = draw(st.integers(0, len(a)))
        b = [list(c) for c in a[:k]]
        if mode == 2:
            b = b + draw(S.name(0, 2))
        elif mode == 3 and k < len(a):
            # differ in exactly one component: type, length or one byte
            t, vh = a[k]
            v = bytes.fromhex(vh)
            how = draw(st.integers(0, 2))
            if how == 0:
                t = draw(S.COMP_TYPES)
            elif how == 1:
                v = v + draw(st.binary(min_size=1, max_size=2)) if draw(st.booleans()) or not v else v[:-1]
            elif v:
                i = draw(st.integers(0, len(v) - 1))
                v = v[:i] + bytes([draw(st.integers(0, 255))]) + v[i + 1:]
            b = b + [[t, v.hex()]] + [list(c) for c in a[k + 1:]]
        else:
            b = b + draw(S.name(0, 2))
    return {'a': a, 'b': b, 'rep': draw(st.integers(0, 1))}


def _grid(tier):
    for typ in (8, 1, 32, 253):
        for pos in range(3):
            for byte in range(256):
                val = bytearray(b'abc')
                val[pos] = byte
                other = bytearray(val)
                other[pos] = (byte + 1) % 256
                yield {'a': [[8, b'p'.hex()], [typ, bytes(val).hex()]],
                       'b': [[8, b'p'.hex()], [typ, bytes(other).hex()]], 'rep': 0}


def run_digit_limit(case):
    """Typed-number components of any size are written and read back whatever the interpreter's limit on int <-> str conversion
    is set to (sys.set_int_max_str_digits / PYTHONINTMAXSTRDIGITS, a documented knob: 640 is its lowest value)."""
    import sys
    r = Result()
    comp = T.enc_tlv(case['typ'], bytes([case['first']]) + bytes((case['fill'] + i) & 0xFF for i in range(case['n'] - 1)) if case['n'] else b'')
    name = [T.enc_tlv(8, b'a'), comp]
    old = sys.get_int_max_str_digits()
    try:
        sys.set_int_max_str_digits(case['limit'])
        try:
            s1 = Component.to_str(comp)
            s2 = Name.to_str(name)
            c2 = Component.from_str(Component.to_canonical_uri(comp))
        except Exception as e:
            r.bad(f'C09/digit-limit/raised/{type(e).__name__}', f'type {case["typ"]}, {case["n"]} octets, limit {case["limit"]}: {e!r}'[:300])
            return r
    finally:
        sys.set_int_max_str_digits(old)
    if bytes(c2) != comp:
        r.bad('C09/digit-limit/canonical-uri-roundtrip', f'type {case["typ"]}, {case["n"]} octets')
    if s1 != s2.rsplit('/', 1)[-1]:
        r.bad('C09/digit-limit/name-and-component-differ', f'{s1[:40]} vs {s2[-40:]}')
    r.key = (case['typ'], case['n'] // 100, case['limit'])
    r.classes = (f'octets:{case["n"] // 250 * 250}+', f'limit:{case["limit"]}')
    return r


def _digit_limit_cases(tier):
    for limit in (640, 1000, 4300):
        for typ in (50, 52, 54, 56, 58, 8):
            for n in (0, 1, 8, 9, 200, 265, 266, 267, 300, 415, 416, 1000, 1785, 1786, 1800, 2000):
                yield {'typ': typ, 'n': n, 'first': 0xFF if n % 2 else 1, 'fill': n & 0xFF, 'limit': limit}


SUBCHECKS = {
    'digit-limit': SubCheck(run_digit_limit, enumerate=_digit_limit_cases, exhaustive={'quick': True, 'thorough': True},
                            note='typed-number components of 0..2000 octets with the interpreter int/str digit limit at 640 / 1000 / 4300'),
    'grid': SubCheck(run_case, enumerate=_grid, exhaustive={'quick': True, 'thorough': True},
                     note='all 256 byte values x 3 positions x 4 component types, paired with the next byte value'),
    'names': SubCheck(run_case, strategy=lambda tier: _pair(),
                      examples={'quick': 14000, 'thorough': 1200000}),
}
