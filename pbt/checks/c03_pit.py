"""C03 - every expressed Interest completes exactly once with the right outcome (both front-ends, virtual time)."""
import hashlib

from hypothesis import strategies as st

from ..core import Result, SubCheck
from ..refs import tlv as T
from ..sim import net
from ..sim.appsim import AppSim, exc_site

PROPERTY_ID = 'C03'
RULE = ('Histories (lists of operations, shrunk as one value) over a 3-ary name tree of depth<=3, run against appv2.NDNApp.express '
        'and app.NDNApp.express_interest inside their real main_loop() on a virtual-time loop with an in-memory face. Ops: '
        'express(name, lifetime in {5,50,4000 ms}, CanBePrefix, implicit digest none/right/wrong, validator latency relative to '
        'the deadline, verdict), data(name), nack(interest or name, reason), advance(ms | to deadline of i -1/0/+1 ms), '
        'cancel(i) - optionally racing the Data / Nack that answers i in the same loop iteration -, shutdown; packets delivered by await or '
        'create_task; the result awaited at once or some time after express(); '
        'one InterestParam object optionally re-used for every expression; an optional second application instance. Oracle: reference pending-Interest model computing '
        'the allowed outcome set of every Interest from the event log (ties within 1 ms of a deadline allow both neighbours); '
        'plus: _receive never raises, no unhandled loop error, nothing left pending, late packets are inert, a fresh Interest on '
        'every used name still completes. Non-trivial = >=2 Interests pending concurrently on same/nested names AND one of '
        '{validator outlives lifetime, cancel followed by late packet, packet within 1 ms of a deadline, shutdown with pending}; '
        'distinct key = abstract trace.')
ASSUMPTIONS = [
    'asyncio call_soon order is FIFO (guaranteed); the library is single-threaded',
    'events within 1 ms of a deadline: either neighbouring outcome accepted (tie order unspecified)',
    'legacy front-end awaits the validator after the lifetime wait by design: verdict or timeout both accepted when it ends after the deadline',
    'Data delivered after shutdown while its validator was still running: verdict outcome or cancellation both accepted',
    'the application starts awaiting the result before the deadline (the library documents leniency for a first await after it)',
]

LIFETIMES = [5, 50, 4000, 5, 50, 4000, 0]
ALPHA = ['a', 'b', 'c']


def _name(lst):
    return [net.comp(x) for x in lst]


_OPTS = {'no_content': False}


def data_for(lst):
    # (a Data packet may have no Content element at all)
    return net.data_wire(_name(lst), content=None if _OPTS['no_content'] else ('D:' + '/'.join(lst)).encode())


# ---- strategy ------------------------------------------------------------------------------------------------
def _history():
    nm = st.lists(st.sampled_from(ALPHA[:2]), min_size=0, max_size=2)
    express = st.fixed_dictionaries({
        'op': st.just('express'), 'name': nm, 'cbp': st.booleans(),
        'digest': st.sampled_from(['none', 'none', 'none', 'right', 'wrong']),
        'life': st.sampled_from(LIFETIMES),
        'vlat': st.sampled_from(['0', '0', '1ms', 'life-1', 'life', 'life+20']),
        'verdict': st.sampled_from([True, True, False]),
        'await_after': st.sampled_from([0, 0, 0, 2, 30]), 'shared_param': st.sampled_from([False, False, True]),
        'stock': st.sampled_from([False, False, True]),
        # the validator is a callable OBJECT that is falsy (it has a __len__ and is 'empty'): still the validator supplied
        'falsy': st.sampled_from([False, False, False, False, True, 'lambda', 'object', 'future', 'partial', 'wrapped']),
        'send_fails': st.sampled_from([False] * 9 + [True])})
    data = st.one_of(
        st.fixed_dictionaries({'op': st.just('data'), 'name': nm, 'mode': st.sampled_from(['await', 'task', 'lp'])}),
        st.fixed_dictionaries({'op': st.just('data'), 'of': st.integers(0, 7), 'ext': st.lists(st.sampled_from(ALPHA[:2]), max_size=1),
                               'mode': st.sampled_from(['await', 'task'])}),
        st.fixed_dictionaries({'op': st.just('data'), 'of': st.integers(0, 7), 'ext': st.just([]),
                               'mode': st.sampled_from(['await', 'task', 'lp'])}))
    nack = st.fixed_dictionaries({'op': st.just('nack'), 'i': st.integers(0, 7), 'reason': st.sampled_from([0, 50, 100, 150]),
                                  'mode': st.sampled_from(['await', 'task'])})
    adv = st.one_of(
        st.fixed_dictionaries({'op': st.just('adv'), 'ms': st.sampled_from([0, 1, 2, 4, 5, 6, 30, 49, 50, 51, 100, 5000])}),
        st.fixed_dictionaries({'op': st.just('adv_to'), 'i': st.integers(0, 7), 'delta': st.sampled_from([-1, 0, 1]),
                               'what': st.sampled_from(['deadline', 'validator'])}))
    cancel = st.fixed_dictionaries({'op': st.just('cancel'), 'i': st.integers(0, 7), 'race': st.sampled_from([None, None, 'data', 'nack'])})
    op = st.one_of(express, express, data, data, data, nack, adv, adv, adv, cancel)
    free = st.tuples(st.lists(express, min_size=1, max_size=4), st.lists(op, min_size=2, max_size=20),
                     st.sampled_from([[], [], [], [{'op': 'shutdown'}], [{'op': 'shutdown', 'how': 'cancel-main'}],
                                      [{'op': 'shutdown', 'how': 'transport-error'}]])).map(lambda t: t[0] + t[1] + t[2])
    return st.one_of(free, free, _templates(express, op))


def _templates(express, op):
    """Multi-step skeletons that random histories reach too rarely, with drawn parameters and random ops around them:
    T1  slow validator outlives the lifetime, the same name is expressed again meanwhile, Data arrives again
    T2  partial satisfaction (mixed CanBePrefix / digest on one name), then a second Data
    T3  cancel, re-express on the same name, late packet
    T6  a cancel racing the answering packet while a second Interest waits for the same packet
    T5  the answering Data scheduled (before the Interest is expressed) for the very instant its lifetime ends
    T7  one InterestParam object re-used (and changed) for a second Interest while the first is pending
    T4  two Interests on one name, one satisfied by a longer-named Data gives up during its validation, then the other's Data"""
    nm = st.lists(st.sampled_from(ALPHA[:2]), min_size=1, max_size=2)

    @st.composite
    def t(draw):
        which = draw(st.sampled_from(['T1', 'T1', 'T2', 'T3', 'T4', 'T5', 'T6', 'T7']))
        n = draw(nm)
        life = draw(st.sampled_from([5, 50]))
        mode = draw(st.sampled_from(['await', 'task']))
        pre = draw(st.lists(op, max_size=3))
        post = draw(st.lists(op, max_size=5))
        if which == 'T7':
            # T7  ONE InterestParam object is used for two Interests (modified in between) while the first is still pending:
            #     each Interest keeps the values it was expressed with (lifetime, CanBePrefix)
            other = draw(nm)
            core = [{'op': 'express', 'name': n, 'cbp': False, 'digest': 'none', 'life': life, 'vlat': '0', 'verdict': True,
                     'shared_param': True},
                    {'op': 'express', 'name': other, 'cbp': True, 'digest': 'none', 'life': 4000, 'vlat': '0', 'verdict': True,
                     'shared_param': True},
                    draw(st.sampled_from([{'op': 'adv', 'ms': life + 1}, {'op': 'data', 'of': 0, 'ext': ['a'], 'mode': mode}])),
                    {'op': 'data', 'of': 0, 'ext': [], 'mode': mode}]
        elif which == 'T1':
            core = [{'op': 'express', 'name': n, 'cbp': draw(st.booleans()), 'digest': 'none', 'life': life,
                     'vlat': draw(st.sampled_from(['life', 'life+20'])), 'verdict': True},
                    {'op': 'adv', 'ms': draw(st.sampled_from([0, 1, 2]))},
                    {'op': 'data', 'of': 99, 'ext': [], 'mode': mode},
                    {'op': 'adv', 'ms': draw(st.sampled_from([0, 1, 2]))},
                    {'op': 'express', 'name': n, 'cbp': draw(st.booleans()), 'digest': 'none',
                     'life': draw(st.sampled_from([50, 4000])), 'vlat': '0', 'verdict': True},
                    {'op': 'adv_to', 'i': 99, 'delta': draw(st.sampled_from([0, 1])), 'what': 'deadline'},
                    {'op': 'adv', 'ms': draw(st.sampled_from([0, 1, 3]))},
                    {'op': 'data', 'of': 99, 'ext': [], 'mode': mode}]
        elif which == 'T2':
            core = [{'op': 'express', 'name': n, 'cbp': True, 'digest': 'none', 'life': 4000, 'vlat': '0', 'verdict': True},
                    {'op': 'express', 'name': n, 'cbp': False, 'digest': draw(st.sampled_from(['none', 'wrong', 'right'])),
                     'life': 4000, 'vlat': '0', 'verdict': True},
                    {'op': 'data', 'of': 99, 'ext': draw(st.sampled_from([['a'], ['b'], []])), 'mode': mode},
                    {'op': 'adv', 'ms': 1},
                    {'op': 'data', 'of': 99, 'ext': draw(st.sampled_from([[], ['a']])), 'mode': mode},
                    {'op': 'data', 'of': 99, 'ext': [], 'mode': mode}]
        elif which == 'T6':
            # the caller gives up in the very loop iteration in which the answer is handed over; a second Interest on the name
            # (or a nested one) is still served by that packet
            core = [{'op': 'express', 'name': n, 'cbp': draw(st.booleans()), 'digest': 'none', 'life': 4000, 'vlat': '0', 'verdict': True,
                     'stock': draw(st.booleans())},
                    {'op': 'express', 'name': n if draw(st.booleans()) else n[:1], 'cbp': True, 'digest': 'none', 'life': 4000,
                     'vlat': '0', 'verdict': True, 'stock': draw(st.booleans())},
                    {'op': 'adv', 'ms': draw(st.sampled_from([0, 1, 30]))},
                    {'op': 'cancel', 'i': draw(st.sampled_from([0, 1])), 'race': draw(st.sampled_from(['data', 'data', 'nack']))},
                    {'op': 'adv', 'ms': 1}]
        elif which == 'T5':
            # the answer is due at the very instant the lifetime ends, and its timer was registered first
            core = [{'op': 'sched_data', 'name': n, 'after': life + draw(st.sampled_from([0, 0, 0, -1, 1]))},
                    {'op': 'express', 'name': n, 'cbp': draw(st.booleans()), 'digest': 'none', 'life': life, 'vlat': '0', 'verdict': True},
                    {'op': 'adv', 'ms': draw(st.sampled_from([0, 1]))}] + \
                   ([{'op': 'express', 'name': n, 'cbp': False, 'digest': 'none', 'life': 4000, 'vlat': '0', 'verdict': True}]
                    if draw(st.booleans()) else []) + \
                   [{'op': 'adv', 'ms': life + 30}]
        elif which == 'T4':
            # two Interests on one name; a Data with a longer name satisfies only the CanBePrefix one, which then gives up
            # (deadline or caller) while its validator still runs; the other one's Data arrives afterwards
            core = [{'op': 'express', 'name': n, 'cbp': True, 'digest': 'none', 'life': life, 'vlat': 'life+20', 'verdict': True},
                    {'op': 'express', 'name': n, 'cbp': False, 'digest': 'none', 'life': 4000, 'vlat': '0', 'verdict': True},
                    {'op': 'data', 'of': 0, 'ext': ['a'], 'mode': mode},
                    draw(st.sampled_from([{'op': 'adv_to', 'i': 0, 'delta': 1, 'what': 'deadline'}, {'op': 'cancel', 'i': 0}])),
                    {'op': 'adv', 'ms': draw(st.sampled_from([0, 1, 30]))},
                    {'op': 'data', 'of': 1, 'ext': [], 'mode': mode},
                    {'op': 'adv', 'ms': 1}]
            if draw(st.booleans()):
                core[0], core[1] = core[1], core[0]
                core[2]['of'], core[5]['of'] = 1, 0
                core[3] = dict(core[3], i=1)
        else:
            core = [{'op': 'express', 'name': n, 'cbp': draw(st.booleans()), 'digest': 'none', 'life': 4000, 'vlat': '0', 'verdict': True},
                    {'op': 'cancel', 'i': 99},
                    {'op': 'express', 'name': n, 'cbp': False, 'digest': 'none', 'life': 4000, 'vlat': '0', 'verdict': True},
                    draw(st.sampled_from([{'op': 'nack', 'i': 99, 'reason': 50, 'mode': mode},
                                          {'op': 'data', 'of': 99, 'ext': [], 'mode': mode}]))]
        # indices 99 mean "the most recent Interest of this skeleton": resolved at run time modulo the live count,
        # so place the skeleton first and keep `pre` free of expresses that would shift it
        pre = [o for o in pre if o['op'] not in ('express',)]
        return pre + core + post
    return t()


def run_placeholder(case):
    """An Interest with ApplicationParameters whose name already carries the digest placeholder (at a drawn position): the Data
    named like the Interest ON THE WIRE completes it."""
    from ndn.security import DigestSha256Signer
    from .. import pkt as P
    r = Result()
    fe = case['frontend']
    sim = AppSim(fe)
    sim.start()
    try:
        comps = [net.comp(x) for x in case['name']]
        pos = case['pos'] % (len(comps) + 1)
        name = comps[:pos] + [T.enc_tlv(2, b'\x00' * 32)] + comps[pos:]
        others = [sim.express([net.comp('o'), net.comp(str(i))], lifetime=4000, vlat=0.0, verdict=_verdict(fe, True)) for i in range(case['others'])]
        h = sim.express(name, lifetime=200, vlat=0.0, verdict=_verdict(fe, True), app_param=b'pp',
                        signer=DigestSha256Signer(for_interest=True) if (fe == 'v2' or case['signed']) else None)
        if h.express_error is not None:
            return r.bad(f'C03/{fe}/placeholder/express-raised/{type(h.express_error).__name__}', repr(h.express_error)[:200])
        try:
            wire_name = P.strict_interest(h.wire)['name']
        except T.Malformed as e:
            return r.bad(f'C03/{fe}/placeholder/interest-malformed', str(e))
        sim.vl.advance(case['delay'] / 1000)
        sim.deliver(net.data_wire(wire_name, content=b'answer'), 'task')
        sim.vl.advance(0.5)
        lab = _outcome_label(h)
        if lab != 'data':
            r.bad(f'C03/{fe}/placeholder/wrong-outcome/{lab}/expected=data', f'placeholder at {pos} of {len(comps)} components; wire name '
                  f'{[c.hex()[:16] for c in wire_name]}')
        for o in others:
            if o.done_count:
                r.bad(f'C03/{fe}/placeholder/bystander-finished', '')
    finally:
        sim.finish()
        sim.close()
    r.key = (fe, case['pos'] % (len(case['name']) + 1), len(case['name']), case['signed'])
    r.classes = (fe, 'caller-supplied-placeholder')
    return r


def run_second_loop(case):
    """The application object is run, shut down, and run again in a FRESH event loop (a second run_forever()): Interests on the
    second connection complete like on the first."""
    r = Result()
    fe = case['frontend']
    sim = AppSim(fe)
    try:
        for conn in range(2):
            sim.start()
            nm = [net.comp('c%d' % conn), net.comp('x')]
            hs = [sim.express(nm, lifetime=200, vlat=0.0, verdict=_verdict(fe, True)),
                  sim.express(nm + [net.comp('never')], lifetime=50, vlat=0.0, verdict=_verdict(fe, True))]
            for h in hs:
                if h.express_error is not None:
                    r.bad(f'C03/{fe}/second-loop/express-raised/connection-{conn}/{type(h.express_error).__name__}', repr(h.express_error)[:200])
                    return r
            sim.vl.advance(case['delay'] / 1000)
            sim.deliver(net.data_wire(nm, content=b'x'), case['mode'])
            sim.vl.advance(0.3)
            labs = [_outcome_label(h) for h in hs]
            if labs != ['data', 'exc:InterestTimeout']:
                r.bad(f'C03/{fe}/second-loop/wrong-outcome/connection-{conn}', f'{labs} expected [data, exc:InterestTimeout]')
                return r
            if sim.receive_errors:
                r.bad(f'C03/{fe}/second-loop/receive-raised/connection-{conn}', sim.receive_errors[0])
                return r
            if sim.pending_size():
                r.bad(f'C03/{fe}/second-loop/entries-left-pending/connection-{conn}', str(sim.pending_size()))
            err = sim.finish()
            if err:
                r.bad(f'C03/{fe}/second-loop/main-loop/connection-{conn}', err)
                return r
            if conn == 0:
                sim.renew_loop()
    finally:
        sim.close()
    r.key = (fe, case['mode'], case['delay'])
    r.classes = (fe, 'second-connection-in-a-fresh-loop')
    return r


def run_shared_gate(case):
    """The validators of several pending Interests wait for ONE thing in flight (a future they share, e.g. a certificate being
    fetched).  One of the Interests gives up meanwhile (its lifetime ends, or its caller cancels): the others still complete with
    their Data once the shared wait is over."""
    r = Result()
    fe = case['frontend']
    if fe == 'legacy' and case['end'] == 'cancel':
        # the legacy front-end runs the validator inside the caller's own coroutine: cancelling the caller cancels what its validator
        # awaits (plain asyncio semantics, the shared future is the validator author's to shield) - no demand
        case = dict(case, end='timeout')
    sim = AppSim(fe)
    try:
        sim.start()
        gate = sim.vl.clock.t + case['gate_ms'] / 1000
        short = sim.express([net.comp('g'), net.comp('short')], lifetime=case['short_life'], verdict=_verdict(fe, True), gate=gate)
        longs = [sim.express([net.comp('g'), net.comp('long%d' % i)], lifetime=4000, verdict=_verdict(fe, True), gate=gate)
                 for i in range(case['n_long'])]
        sim.vl.advance(0.005)
        for h, nm in [(short, 'short')] + [(h, 'long%d' % i) for i, h in enumerate(longs)]:
            sim.deliver(net.data_wire([net.comp('g'), net.comp(nm)], content=b'x'), case['mode'])
        if case['end'] == 'cancel':
            sim.vl.advance(case['short_life'] / 2000)
            sim.cancel(short)
        sim.vl.advance(case['gate_ms'] / 1000 + 0.2)
        if sim.receive_errors:
            r.bad(f'C03/{fe}/shared-gate/receive-raised', sim.receive_errors[0])
            return r
        for i, h in enumerate(longs):
            lab = _outcome_label(h)
            if lab != 'data':
                r.bad(f'C03/{fe}/shared-gate/bystander-wrong-outcome/{lab.split(":")[0]}/other-{case["end"]}',
                      f'Interest long{i} (lifetime 4000, Data at 5 ms, shared wait over at {case["gate_ms"]} ms) ended {lab}; the short one '
                      f'(lifetime {case["short_life"]}) ended {_outcome_label(short)}')
                return r
            if h.done_count != 1:
                r.bad(f'C03/{fe}/shared-gate/finished-{h.done_count}-times', '')
        lab = _outcome_label(short)
        allowed = {'exc:CancelledError', 'exc:InterestCanceled'} if case['end'] == 'cancel' else \
            ({'exc:InterestTimeout'} if fe == 'v2' else {'exc:InterestTimeout', 'data'})
        if lab not in allowed:
            r.bad(f'C03/{fe}/shared-gate/short-wrong-outcome/{lab}', f'allowed {sorted(allowed)}')
        errs = sim.vl.collect_errors()
        if errs:
            r.bad(f'C03/{fe}/shared-gate/unhandled-loop-error/{errs[0]["type"]}', str(errs[:2])[:300])
        err = sim.finish()
        if err:
            r.bad(f'C03/{fe}/shared-gate/main-loop', err)
    finally:
        sim.close()
    r.key = (fe, case['end'], case['n_long'], case['short_life'], case['gate_ms'], case['mode'])
    r.classes = (fe, 'shared-gate', case['end'])
    return r


def _placeholder_case():
    return st.fixed_dictionaries({'frontend': st.sampled_from(['v2', 'legacy']), 'name': st.lists(st.sampled_from(ALPHA), min_size=1, max_size=3),
                                  'pos': st.integers(0, 3), 'others': st.integers(0, 2), 'signed': st.booleans(),
                                  'delay': st.sampled_from([0, 1, 50])})


def _case(frontend):
    second = st.one_of(st.none(), st.none(),
                       st.fixed_dictionaries({'name': st.lists(st.sampled_from(ALPHA[:2]), min_size=1, max_size=2),
                                              'life': st.sampled_from([50, 4000])}))
    return st.fixed_dictionaries({'frontend': st.just(frontend), 'ops': _history(), 'second_app': second,
                                  'no_content': st.sampled_from([False, False, True]), 'debug_log': st.sampled_from([False, False, False, True])})


# ---- run + model -------------------------------------------------------------------------------------------------
def vlat_seconds(code, life_ms):
    return {'0': 0.0, '1ms': 0.001, 'life-1': (life_ms - 1) / 1000, 'life': life_ms / 1000, 'life+20': (life_ms + 20) / 1000}[code]


def run_case(case):
    r = Result()
    fe = case['frontend']
    sim = AppSim(fe)
    sim2 = None
    try:
        if case.get('second_app'):
            # a second, independent application instance of the same front-end in the same process / loop:
            # nothing is ever delivered to it, so its Interest can only time out, at its own deadline
            sim2 = AppSim(fe, vl=sim.vl)
            sim2.start()
            h2 = sim2.express(_name(case['second_app']['name']), lifetime=case['second_app']['life'], can_be_prefix=True,
                              vlat=0.0, verdict=_verdict(fe, True))
        _OPTS['no_content'] = bool(case.get('no_content'))
        with net.debug_logging(bool(case.get('debug_log'))):
            _run(sim, fe, case['ops'], r)
        if sim2 is not None and not r.violations:
            sim.vl.advance(5.0)
            lab = _outcome_label(h2)
            d2 = h2.t0_ms + case['second_app']['life']
            if lab != 'exc:InterestTimeout' or h2.done_ms is None or abs(h2.done_ms - d2) > 2:
                r.bad(f'C03/{fe}/second-instance-affected/{lab}',
                      f'Interest of an independent app instance ended {lab} at {h2.done_ms} (deadline {d2}); nothing was delivered to it')
            err = sim2.finish()
            if err:
                r.bad(f'C03/{fe}/second-instance-main-loop', err)
    finally:
        if sim2 is not None:
            try:
                sim2.finish()
            except Exception:
                pass
        sim.close()
    return r


def _matches(ent, data_name_lst, data_wire):
    """Does Data (name list of str, wire) match Interest ent per the NDN rules in the property?"""
    iname = ent['name']
    if ent['digest'] == 'none':
        if data_name_lst == iname:
            return True
        return ent['cbp'] and len(data_name_lst) > len(iname) and data_name_lst[:len(iname)] == iname
    # implicit digest: full Data name = name + sha256(wire); Interest name = iname + digest
    if data_name_lst != iname:
        return False
    return ent['digest'] == 'right'


def _run(sim, fe, ops, r):
    sim.start()
    ents = []          # per expressed Interest: spec + handle + log
    events = []        # (t_ms, kind, payload) in order
    alive = True
    flags = set()
    trace = []
    for op in ops:
        k = op['op']
        if k == 'express':
            if not alive:
                continue
            lst = op['name']
            comps = _name(lst)
            if op['digest'] != 'none':
                dw = data_for(lst)
                dig = hashlib.sha256(dw).digest() if op['digest'] == 'right' else b'\x11' * 32
                comps = comps + [T.enc_tlv(1, dig)]
            if not comps:
                # Interest with empty name cannot be expressed (final_name[-1]); outside the property's domain
                continue
            if op['life'] == 0:
                op = dict(op, vlat='0')
            h = sim.express(comps, lifetime=op['life'], can_be_prefix=op['cbp'], vlat=vlat_seconds(op['vlat'], op['life']),
                            verdict=_verdict(fe, op['verdict']),
                            # awaited later, but while the Interest is still alive (a first await after the deadline is
                            # deliberately lenient in the library: "should not be considered as an error")
                            # (and only with a quick validator: in the legacy front-end validation starts when the result is awaited)
                            await_after=(op.get('await_after', 0) if op.get('await_after', 0) < op['life'] - 2
                                         and op['vlat'] in ('0', '1ms') else 0) / 1000,
                            shared_param=op.get('shared_param', False), falsy_validator=op.get('falsy') or False,
                            # an accepting validator without latency may be the stock object the library ships
                            validator='stock' if op.get('stock') and op['vlat'] == '0' and op['verdict'] else 'default',
                            send_fails=bool(op.get('send_fails')))
            if op.get('send_fails'):
                # the face refused the packet: the caller is told (the transport's own exception), nothing is pending for this
                # Interest - everything else goes on as before (the invariants below see to that)
                if not isinstance(h.express_error, OSError):
                    r.bad(f'C03/{fe}/send-failure-not-reported/{type(h.express_error).__name__}', repr(h.express_error))
                    return
                trace.append('F')
                continue
            if h.express_error is not None:
                r.bad(f'C03/{fe}/express-raised/{type(h.express_error).__name__}', repr(h.express_error))
                return
            aw_ms = op.get('await_after', 0) if op.get('await_after', 0) < op['life'] - 2 and op['vlat'] in ('0', '1ms') else 0
            ents.append({'aw': aw_ms, 'name': lst, 'cbp': op['cbp'], 'digest': op['digest'], 'life': op['life'], 'vlat': op['vlat'],
                         'verdict': op['verdict'], 'h': h, 't0': h.t0_ms, 'comps': comps,
                         # (InterestLifetime 0: the library waits the 100 ms it grants an already expired deadline; anything
                         # between 'expires at once' and 'expires after 100 ms' is accepted - see `lenient` below)
                         'd': h.t0_ms + (op['life'] or 100), 'lenient': op['life'] == 0})
            events.append((h.t0_ms, 'express', len(ents) - 1))
            trace.append('E')
        elif k == 'data':
            if 'of' in op:
                if not ents:
                    continue
                lst = ents[0 if op['of'] == 99 else op['of'] % len(ents)]['name'] + op['ext']
            else:
                lst = op['name']
            op = dict(op, name=lst)
            if not lst or not alive:
                continue
            w = data_for(lst)
            events.append((sim.vl.now_ms(), 'data', (lst, w)))
            if op['mode'] == 'lp':
                sim.deliver(net.lp_wrap(w, extra=[(0x0340, b'\x01')]), 'task')    # inside a link-layer envelope
            else:
                sim.deliver(w, op['mode'])
            trace.append('D')
        elif k == 'sched_data':
            # the network will deliver this Data at a fixed instant (its timer is registered NOW, i.e. before the timers of
            # Interests expressed later: at equal instants it is served first)
            lst = op['name']
            if not lst or not alive:
                continue
            w = data_for(lst)

            def fire(lst=lst, w=w):
                if not sim.face.running:
                    return
                events.append((sim.vl.now_ms(), 'data', (lst, w)))

                async def _g():
                    try:
                        await sim.app.face.callback(6, w)
                    except Exception as e_:  # noqa
                        sim.receive_errors.append(exc_site(e_) + f': {e_!r}'[:200])
                sim.vl.loop.create_task(_g())
            sim.vl.loop.call_at(sim.vl.clock.t + op['after'] / 1000, fire)
            flags.add('scheduled-data')
            trace.append('s')
        elif k == 'nack':
            if not ents or not alive:
                continue
            e = ents[0 if op['i'] == 99 else op['i'] % len(ents)]
            if e['h'].wire is None:
                continue
            events.append((sim.vl.now_ms(), 'nack', (e['comps'], op['reason'])))
            sim.deliver(net.lp_wrap(e['h'].wire, nack_reason=op['reason']), op['mode'])
            trace.append('N')
        elif k == 'adv':
            sim.vl.advance(op['ms'] / 1000)
            trace.append('a')
        elif k == 'adv_to':
            if not ents:
                continue
            e = ents[0 if op['i'] == 99 else op['i'] % len(ents)]
            target = e['d']
            if op['what'] == 'validator' and e.get('matched_at') is not None:
                target = e['matched_at'] + int(vlat_seconds(e['vlat'], e['life']) * 1000)
            target += op['delta']
            dt = (target - sim.vl.now_ms()) / 1000
            if dt > 0:
                sim.vl.advance(dt)
            trace.append('t')
        elif k == 'cancel':
            if not ents:
                continue
            e = ents[0 if op['i'] == 99 else op['i'] % len(ents)]
            if e['h'].done_count == 0 and 'cancel_at' not in e and e['h'].awaiting:
                e['cancel_at'] = sim.vl.now_ms()
                events.append((sim.vl.now_ms(), 'cancel', ents.index(e)))
                race = op.get('race')
                if race and alive and e['h'].wire is not None:
                    # the answer to this very Interest was handed over by the face in the same loop iteration: the cancellation
                    # takes effect at once, the packet is handled right after it (and may still serve other Interests)
                    if race == 'data':
                        w = data_for(e['name'])
                        events.append((sim.vl.now_ms(), 'data', (e['name'], w)))
                    else:
                        w = net.lp_wrap(e['h'].wire, nack_reason=150)
                        events.append((sim.vl.now_ms(), 'nack', (e['comps'], 150)))
                    sim.deliver_then_cancel(w, e['h'])
                    flags.add('cancel-races-packet')
                else:
                    sim.cancel(e['h'])
                trace.append('C')
        elif k == 'shutdown':
            if alive:
                events.append((sim.vl.now_ms(), 'shutdown', None))
                if op.get('how') == 'cancel-main' and sim.main_task is not None:
                    # the connection ends because the task running main_loop() is cancelled (what Ctrl+C does)
                    sim.vl.call(sim.main_task.cancel)
                    sim.vl.settle()
                    flags.add('main-loop-cancelled')
                elif op.get('how') == 'transport-error' and sim.main_task is not None:
                    # the face goes down because the transport breaks (its run() raises, and so does main_loop())
                    sim.vl.call(sim.face.fail, BrokenPipeError('transport broke'))
                    sim.vl.settle()
                    if sim.main_task.done() and not sim.main_task.cancelled():
                        sim.main_task.exception()
                    sim.main_task = None
                    flags.add('transport-error')
                else:
                    sim.shutdown()
                alive = False
                trace.append('S')
        # record first match time per entry (for adv_to validator)
        if k == 'data' and op['name']:
            for e in ents:
                if e.get('matched_at') is None and e['h'].done_count == 0 and e['t0'] <= events[-1][0] < e['d'] \
                        and _matches(e, op['name'], None):
                    e['matched_at'] = events[-1][0]
    # ---- quiescence -----------------------------------------------------------------------------------------
    sim.vl.advance(10.0)
    # every Interest finished exactly once with an allowed outcome
    for i, e in enumerate(ents):
        allowed, why = _allowed(fe, i, e, events)
        h = e['h']
        got = _outcome_label(h)
        if h.done_count != 1:
            r.bad(f'C03/{fe}/not-finished-once/count={h.done_count}', f'interest {i} {e["name"]} finished {h.done_count}x; allowed {allowed}')
            continue
        if e.get('lenient') and got == 'exc:InterestTimeout' and h.done_ms <= e['d'] + 1:
            continue
        if got not in allowed:
            kind = 'internal-error' if got.startswith('exc:') and got.split(':')[1] not in (
                'InterestTimeout', 'InterestNack', 'InterestCanceled', 'ValidationFailure', 'CancelledError') else 'wrong-outcome'
            site = h.outcome[2].get('site', '') if h.outcome[0] == 'exc' else ''
            r.bad(f'C03/{fe}/{kind}/{got}/expected={"|".join(sorted(allowed))}',
                  f'interest {i} name={e["name"]} cbp={e["cbp"]} digest={e["digest"]} life={e["life"]} vlat={e["vlat"]} '
                  f't0={e["t0"]} done={h.done_ms} site={site} why={why} events={[(t - ents[0]["t0"], k) for t, k, _ in events]}')
        if got == 'data':
            if h.outcome[1] != _name(_matched_name(e, events, i)):
                r.bad(f'C03/{fe}/wrong-data', f'interest {i} got Data {h.outcome[1]}')
    if sim.receive_errors:
        r.bad(f'C03/{fe}/receive-raised/{sim.receive_errors[0].split(":")[0]}', '; '.join(sim.receive_errors[:3]))
    errs = sim.vl.collect_errors()
    if errs:
        r.bad(f'C03/{fe}/unhandled-loop-error/{errs[0]["type"]}', f'{errs[:2]}')
    # nothing remains pending
    if alive:
        n = sim.pending_size()
        if n not in (None, 0):
            r.bad(f'C03/{fe}/entries-left-pending', f'{n} entries after all Interests finished; trace={"".join(trace)}')
        # late packets for every used name are inert
        used = sorted({tuple(e['name']) for e in ents})
        for lst in used:
            if lst:
                sim.deliver(data_for(list(lst)), 'await')
        for e in ents:
            if e['h'].wire is not None:
                sim.deliver(net.lp_wrap(e['h'].wire, nack_reason=150), 'await')
        if sim.receive_errors:
            r.bad(f'C03/{fe}/late-packet-raised/{sim.receive_errors[0].split(":")[0]}', '; '.join(sim.receive_errors[:3]))
        errs = sim.vl.collect_errors()
        if errs:
            r.bad(f'C03/{fe}/late-packet-loop-error/{errs[0]["type"]}', f'{errs[:2]}')
        for e in ents:
            if e['h'].done_count != 1:
                r.bad(f'C03/{fe}/late-packet-refinished', f'{e["name"]} finished {e["h"].done_count}x')
        # a fresh Interest on every used name still completes (no cross-talk through finished entries)
        for lst in used:
            if not lst:
                continue
            h = sim.express(_name(list(lst)), lifetime=4000, vlat=0.0, verdict=_verdict(fe, True))
            sim.deliver(data_for(list(lst)), 'task')
            sim.vl.advance(0.01)
            if _outcome_label(h) != 'data':
                r.bad(f'C03/{fe}/fresh-interest-broken/{_outcome_label(h)}', f'name {lst} after trace {"".join(trace)}')
                break
        sim.vl.advance(5.0)
    err = sim.finish()
    if err:
        r.bad(f'C03/{fe}/main-loop', err)
    errs = sim.vl.collect_errors()
    if errs:
        r.bad(f'C03/{fe}/unhandled-loop-error-at-exit/{errs[0]["type"]}', f'{errs[:2]}')
    # ---- classification -------------------------------------------------------------------------------------
    conc = _max_concurrent_related(ents)
    for e in ents:
        if e.get('matched_at') is not None and e['matched_at'] + int(vlat_seconds(e['vlat'], e['life']) * 1000) >= e['d']:
            flags.add('validator-outlives')
        if 'cancel_at' in e and any(t >= e['cancel_at'] and k in ('data', 'nack') for t, k, _ in events):
            flags.add('cancel-then-packet')
        if any(abs(t - e['d']) <= 1 and k in ('data', 'nack') for t, k, _ in events):
            flags.add('packet-at-deadline')
    if any(k == 'shutdown' and any(e['t0'] <= t < e['d'] for e in ents) for t, k, _ in events):
        flags.add('shutdown-with-pending')
    nontrivial = conc >= 2 and bool(flags)
    r.key = (fe, ''.join(trace)[:24], tuple(sorted(flags)), conc) if nontrivial else None
    r.classes = (fe, f'concurrent:{min(conc, 4)}') + tuple(sorted(flags)) + (('nontrivial',) if nontrivial else ())


def _verdict(fe, ok):
    from ndn.types import ValidResult
    if fe == 'v2':
        return ValidResult.PASS if ok else ValidResult.FAIL
    return bool(ok)


def _outcome_label(h):
    if h.outcome is None:
        return 'none'
    if h.outcome[0] == 'data':
        return 'data'
    if h.outcome[1] == 'InterestNack':
        return f'exc:InterestNack:{h.outcome[2].get("reason")}'
    return f'exc:{h.outcome[1]}'


def _matched_name(e, events, idx):
    started = False
    for t, k, p in events:
        if k == 'express' and p == idx:
            started = True
            continue
        if started and k == 'data' and t <= e['d'] + 1 and _matches(e, p[0], p[1]):
            return p[0]
    return e['name']


def _allowed(fe, i, e, events):
    """Reference pending-Interest semantics -> (set of allowed outcome labels, explanation)."""
    t0, d = e['t0'], e['d']
    vl = int(vlat_seconds(e['vlat'], e['life']) * 1000)
    verdict_out = 'data' if e['verdict'] else 'exc:ValidationFailure'
    CANCEL = {'exc:InterestCanceled', 'exc:CancelledError'}
    started = False
    for t, k, p in events:
        if k == 'express' and p == i:
            started = True
            continue
        if not started:
            continue
        hit = None
        if k == 'data' and _matches(e, p[0], p[1]):
            hit = 'data'
        elif k == 'nack' and p[0] == e['comps']:
            hit = 'nack'
        elif k == 'cancel' and p == i:
            hit = 'cancel'
        elif k == 'shutdown':
            hit = 'shutdown'
        if hit is None:
            continue
        if t > d + 1:
            return {'exc:InterestTimeout'}, f'{hit} at {t} after deadline {d}'
        tie = t >= d - 1
        out = set()
        if hit == 'data':
            # (legacy front-end: the validator runs when the caller awaits the result, i.e. not before t0 + await_after)
            done = (t if fe == 'v2' else max(t, t0 + e.get('aw', 0))) + vl
            if fe == 'v2':
                if done < d - 1:
                    out.add(verdict_out)
                elif done > d + 1:
                    out.add('exc:InterestTimeout')
                else:
                    out |= {verdict_out, 'exc:InterestTimeout'}
            else:
                out.add(verdict_out)
                if done >= d - 1:
                    out.add('exc:InterestTimeout')
            # caller cancel / shutdown while the validator is still running
            for t2, k2, p2 in events:
                if t <= t2 <= done + 1 and ((k2 == 'cancel' and p2 == i) or k2 == 'shutdown') and (t2 <= d + 1 or fe == 'legacy'):
                    out |= CANCEL
        elif hit == 'nack':
            out.add(f'exc:InterestNack:{p[1]}')
        else:
            out |= CANCEL
        if tie:
            out.add('exc:InterestTimeout')
        return out, f'{hit} at {t} (deadline {d}, validator {vl} ms)'
    return {'exc:InterestTimeout'}, 'no event'


def _max_concurrent_related(ents):
    best = 0
    for e in ents:
        n = 0
        for f in ents:
            related = f['name'][:len(e['name'])] == e['name'] or e['name'][:len(f['name'])] == f['name']
            if related and f['t0'] < e['d'] and e['t0'] < f['d']:
                n += 1
        best = max(best, n)
    return best


SUBCHECKS = {
    'shared-gate': SubCheck(run_shared_gate, strategy=lambda tier: st.fixed_dictionaries({
        'frontend': st.sampled_from(['v2', 'legacy']), 'mode': st.sampled_from(['await', 'task']), 'end': st.sampled_from(['timeout', 'cancel']),
        'n_long': st.integers(1, 3), 'short_life': st.sampled_from([20, 50]), 'gate_ms': st.sampled_from([60, 100, 300])}),
        examples={'quick': 60, 'thorough': 600}, note='validators of several Interests awaiting one shared future while one Interest gives up'),
    'second-loop': SubCheck(run_second_loop, strategy=lambda tier: st.fixed_dictionaries({
        'frontend': st.sampled_from(['v2', 'legacy']), 'mode': st.sampled_from(['await', 'task']), 'delay': st.sampled_from([0, 1, 20])}),
        examples={'quick': 24, 'thorough': 200}, note='the same application object run again in a fresh event loop'),
    'placeholder': SubCheck(run_placeholder, strategy=lambda tier: _placeholder_case(), examples={'quick': 150, 'thorough': 2000},
                            note='Interests with ApplicationParameters whose name carries the digest placeholder at any position'),
    'v2': SubCheck(run_case, strategy=lambda tier: _case('v2'), examples={'quick': 2500, 'thorough': 80000}),
    'legacy': SubCheck(run_case, strategy=lambda tier: _case('legacy'), examples={'quick': 2500, 'thorough': 80000}),
}
