"""C11 - a compiled trust schema matches exactly the names its source text describes."""
import lark
from hypothesis import strategies as st

from ndn.app_support.light_versec import DEFAULT_USER_FNS, Checker, LvsModelError, SemanticError, compile_lvs

from .. import lvs_gen as G
from ..core import Result, SubCheck
from ..refs import lvs_ref as L
from ..refs import tlv as T

PROPERTY_ID = 'C11'
RULE = ('Generated LVS schema ASTs (2..7 definitions; rule ids defined once or several times, temporary rules; name patterns of 1..4 '
        'items from {literal of a 5-word alphabet incl. a typed component, named pattern x/y/z, temporary pattern _/_t, reference to an '
        'earlier rule - possibly the same rule twice}; 0..2 constraint sets of 1..2 terms with literal / pattern / $eq / $eq_type / two '
        'custom user functions as options; acyclic signing lists) rendered to text with varying whitespace, comments and leading '
        'slash, the rules optionally moved out of dependency order. Each schema is probed with ALL names of length 0..4 over (schema literals + 2 fresh components), with and without a '
        'trailing implicit-digest component sample. Oracle: reference LVS interpreter (expansion with fresh identity per temporary '
        'occurrence, left-to-right matching, constraints evaluated at first occurrence) - the set {(rule, bindings)} over '
        'non-temporary rules must be equal, for the direct checker AND after save()/load(); also when earlier match() iterators were dropped after '
        'their first result or are still open while the next name is matched. Non-trivial = schema with >=1 rule '
        'reference and >=1 constraint, probed by >=1 matching and >=1 non-matching name; distinct key = schema hash.')
ASSUMPTIONS = [
    'constraints only name patterns that occur in the rule\'s own expanded name (the documented way to use them)',
    'a SemanticError("never occurs before") for a pattern the compiler happens to number later is discarded and counted',
    'user functions are total on the arguments they receive ($eq_type only gets literal arguments)',
]


MAX_CHAINS = 64
MAX_ITEMS = 500


def chain_count(sch):
    """Size of the expansion computed on the AST (no expansion): returns a number > MAX_CHAINS when either the number
    of expanded chains or the total number of name items in them is too large (both are exponential in nesting)."""
    per, plen = {}, {}
    total = items = 0
    for rl in sch['rules']:
        n = max(1, len(rl['cons']))
        ln = 0
        for it in rl['name']:
            if 'ref' in it:
                n *= max(1, per.get(it['ref'], 1))
                ln += plen.get(it['ref'], 1)
            else:
                ln += 1
        per[rl['id']] = per.get(rl['id'], 0) + n
        plen[rl['id']] = max(plen.get(rl['id'], 0), ln)
        total += n
        items += n * ln
        if total > 10 ** 6 or items > 10 ** 7:
            break
    return total if items <= MAX_ITEMS else MAX_CHAINS + 1 + items


def compile_schema(text):
    return compile_lvs(text)


def _add(out, rules, ctx):
    for rn in rules:
        if rn.startswith('#_'):
            continue
        out.add((rn, frozenset((k, bytes(v)) for k, v in ctx.items() if not k.lstrip('-').isdigit())))


def _collect(it, out):
    for rules, ctx in it:
        _add(out, rules, ctx)
    return out


def lib_matches(checker, name):
    return _collect(checker.match(name), set())


def run_case(case):
    r = Result()
    sch = case['schema']
    text = L.render(sch, case.get('style', 0), case.get('moves', ()))
    fns = G.user_fns()
    lib_fns = {**fns, **DEFAULT_USER_FNS}       # the library runs with the $eq / $eq_type it ships; the reference with its own
    if chain_count(sch) > MAX_CHAINS:
        r.discarded = True      # expansion is exponential in repeated references; keep cases small (counted)
        return r
    try:
        model = compile_schema(text)
        if case.get('style', 0) % 2:
            # the user functions are supplied after construction, through the documented `user_fns` attribute (what
            # validate_user_fns() is there to check), and one of them is replaced once more
            given = {}
            checker = Checker(model, given)
            given.update(lib_fns)
            given['$first_a'] = lambda c, args: False
            checker.user_fns['$first_a'] = fns['$first_a']
        else:
            checker = Checker(model, lib_fns)
    except SemanticError as e:
        if 'never occurs before' in str(e) or 'Loop detected' in str(e):
            # (a) pattern numbered later by the compiler; (b) node-level signing cycle, e.g. two rules with the same name
            # pattern one of which signs the other: both are outside C11 (see C13)
            r.discarded = True
            return r
        return r.bad('C11/compile-refused-wellformed/SemanticError', f'{e} :: {text}')
    except LvsModelError as e:
        # the loader's sanity rules refuse what the library's own compiler produced from a well-formed schema
        return r.bad('C11/compile-refused-wellformed/LvsModelError', f'{e} :: {text}')
    except lark.LarkError as e:
        return r.bad('C11/harness-render', f'{e} :: {text}')
    except Exception as e:
        return r.bad(f'C11/compile-raised/{type(e).__name__}', f'{e!r} :: {text}')
    try:
        saved = checker.save()
        if case.get('style', 0) % 3 == 1:
            # the bytes come out of a buffer the caller goes on using (a file / receive buffer that is re-filled after loading)
            buf = bytearray(saved)
            loaded = Checker.load(buf if case.get('style', 0) < 3 else memoryview(buf), lib_fns)
            for i_ in range(len(buf)):
                buf[i_] = 0x5a
        else:
            loaded = Checker.load(saved, lib_fns)
    except Exception as e:
        return r.bad(f'C11/save-load-raised/{type(e).__name__}', f'{e!r} :: {text}')
    ex = L.expand(sch)
    words = G.name_alphabet(sch)
    longest = max((len(ch.items) for chains in ex.values() for ch in chains), default=0)
    names = G.all_names(words, min(4, longest + 1))
    if longest + 1 < 4:
        # nothing can match a longer name: a sample of them is enough
        extra = G.all_names(words[:3], 4)
        names += [n for i, n in enumerate(extra) if len(n) > longest + 1 and i % 3 == case.get('style', 0) % 3]
    n_match = n_nomatch = 0
    held = None
    digest = T.enc_tlv(1, b'\x07' * 32)
    for i, name in enumerate(names):
        want = L.match_all(sch, name, fns, ex)
        if want:
            n_match += 1
        else:
            n_nomatch += 1
        if want and i % 3 == case.get('style', 0) % 3:
            # the caller takes only the first match and drops the iterator (any(...), next(...), break)
            try:
                first = next(iter(checker.match(name)), None)
                first2 = next(iter(loaded.match(name)), None)
            except Exception as e:
                r.bad(f'C11/match-raised/{type(e).__name__}/first-only', f'{e!r} name={_show(name)} :: {text}')
                break
            if first is None or first2 is None:
                r.bad('C11/direct/missed-match/first-only', f'name={_show(name)} :: {text}')
                break
        probes = [('direct', checker, name), ('loaded', loaded, name)]
        if held is not None:
            # an iterator over the matches of an EARLIER name is still open while this name is matched, and is finished afterwards
            probes.append(('interleaved', checker, name))
        if i % 17 == 0 and name:
            probes.append(('direct+digest', checker, name + [digest]))
        if i % 17 == 1:
            # only a trailing ImplicitSha256Digest is left out of account; any other last component (a ParametersSha256Digest,
            # a digest-sized generic component) is a component like the others
            # (... and of two trailing implicit digests only the last one is the packet's)
            odd = [[T.enc_tlv(2, b'\x07' * 32)], [T.enc_tlv(8, b'\x07' * 32)], [digest, digest]][(i // 17) % 3]
            probes.append(('direct+other-last-component', checker, name + odd))
        if i % 5 == 2 and name:
            # the name as the decoders hand it over: components that are (writable) memoryviews into the packet buffer; as a tuple
            from ndn.encoding import Name as _Name
            probes.append(('direct+decoded-name', checker, _Name.from_bytes(bytearray(T.enc_tlv(7, b''.join(name))))))
            probes.append(('loaded+tuple-name', loaded, tuple(name)))
        for label, ck, nm in probes:
            if label == 'direct+other-last-component':
                want_here = L.match_all(sch, nm[:-1] if nm[-2:] == [digest, digest] else nm, fns, ex)
            else:
                want_here = want
            try:
                got = lib_matches(ck, nm)
            except Exception as e:
                kind = 'empty-name' if not nm else 'other'
                r.bad(f'C11/match-raised/{type(e).__name__}/{kind}', f'{e!r} name={_show(nm)} :: {text}')
                break
            if got != want_here:
                extra, missing = got - want_here, want_here - got
                kind = 'spurious-match' if extra else 'missed-match'
                r.bad(f'C11/{label.split("+")[0]}/{kind}', f'name={_show(nm)} spurious={_showset(extra)} missing={_showset(missing)} :: {text}')
                break
        if r.violations:
            break
        if held is not None:
            try:
                rest = _collect(held[1], held[2])
            except Exception as e:
                r.bad(f'C11/match-raised/{type(e).__name__}/interleaved', f'{e!r} :: {text}')
                break
            if rest != held[3]:
                r.bad('C11/direct/interleaved-iterators-disturb-each-other', f'name={_show(held[0])} while matching {_show(name)} :: {text}')
                break
            held = None
        elif want and i % 4 == case.get('style', 0) % 4:
            it = iter(checker.match(name))
            acc = set()
            try:
                _add(acc, *next(it))
                held = (name, it, acc, want)
            except StopIteration:
                pass
    has_ref = any('ref' in it for rl in sch['rules'] for it in rl['name'])
    has_cons = any(rl['cons'] for rl in sch['rules'])
    nontrivial = has_ref and has_cons and n_match > 0 and n_nomatch > 0
    r.key = text if nontrivial else None
    r.classes = ('ref' if has_ref else 'noref', 'cons' if has_cons else 'nocons', 'rules-moved' if case.get('moves') else 'generator-order',
                 f'matching-names:{"0" if not n_match else "1-20" if n_match <= 20 else ">20"}', f'names:{len(names)}')
    return r


def _show(name):
    return '/' + '/'.join(bytes(c).hex() for c in name)


def _showset(s):
    return sorted((rn, sorted((k, v.hex()) for k, v in b)) for rn, b in s)[:3]


def _case(mode='base'):
    moves = st.one_of(st.just([]), st.just([]), st.lists(st.tuples(st.integers(0, 7), st.integers(0, 7)).map(list), min_size=1, max_size=2))
    return st.fixed_dictionaries({'schema': G.schema(mode=mode), 'style': st.integers(0, 5), 'moves': moves})


def run_large(case):
    """Schemas with MANY rules (60..140) and hundreds of pattern edges (pattern tags beyond one octet), probed with one matching
    and a few non-matching names per sampled rule; direct and after save()/load()."""
    r = Result()
    n, width = case['n_rules'], case['width']
    rules = []
    for i in range(n):
        items = [{'lit': f'p{i}'}] + [{'pat': '_'} if (i + j) % 3 else {'pat': f'x{j}'} for j in range(width)]
        rules.append({'id': f'#r{i}', 'name': items, 'cons': [], 'sign': []})
    sch = {'rules': rules}
    text = L.render(sch, case.get('style', 0))
    try:
        checker = Checker(compile_schema(text), {})
    except Exception as e:
        return r.bad(f'C11/large/compile-raised/{type(e).__name__}', repr(e)[:200])
    try:
        loaded = Checker.load(checker.save(), {})
    except Exception as e:
        return r.bad(f'C11/large/save-load-raised/{type(e).__name__}', f'{e!r} ({n} rules x {width} patterns)')
    ex = L.expand(sch)
    for i in case['probe']:
        i %= n
        good = [L.comp_of(f'p{i}')] + [L.comp_of(f'v{j}') for j in range(width)]
        for name in (good, good[:-1], good + [L.comp_of('more')], [L.comp_of(f'p{(i + 1) % n}x')] + good[1:]):
            want = L.match_all(sch, name, {}, ex)
            for label, ck in (('direct', checker), ('loaded', loaded)):
                try:
                    got = lib_matches(ck, name)
                except Exception as e:
                    return r.bad(f'C11/large/match-raised/{type(e).__name__}', f'{e!r}')
                if got != want:
                    return r.bad(f'C11/large/{label}/{"spurious-match" if got - want else "missed-match"}',
                                 f'rule {i} of {n}, width {width}: got {_showset(got)} want {_showset(want)}')
    r.key = (n // 20, width)
    r.classes = (f'rules:{n // 20 * 20}+', f'pattern-edges:{n * width // 100 * 100}+')
    return r


def _large_case():
    return st.fixed_dictionaries({'n_rules': st.integers(60, 140), 'width': st.integers(1, 4), 'style': st.integers(0, 5),
                                  'probe': st.lists(st.integers(0, 200), min_size=3, max_size=8)})


def _degenerate(tier):
    """The smallest well-formed schemas: no rule at all (an empty file / comments only), one rule."""
    for style in range(6):
        yield {'schema': {'rules': []}, 'style': style}
        # a temporary rule is the only one that refers to another rule
        yield {'schema': {'rules': [{'id': '#KEY', 'name': [{'lit': 'K'}, {'pat': '_'}], 'cons': [], 'sign': []},
                                    {'id': '#_t', 'name': [{'lit': 'a'}, {'ref': '#KEY'}], 'cons': [], 'sign': []},
                                    {'id': '#r0', 'name': [{'lit': 'b'}, {'pat': 'x'}], 'cons': [], 'sign': []}]}, 'style': style}
        yield {'schema': {'rules': [{'id': '#r0', 'name': [{'lit': 'a'}], 'cons': [], 'sign': []}]}, 'style': style}
        yield {'schema': {'rules': [{'id': '#r0', 'name': [{'pat': 'x'}, {'pat': 'x'}], 'cons': [], 'sign': []}]}, 'style': style}
        yield {'schema': {'rules': [{'id': '#_t', 'name': [{'pat': '_t'}], 'cons': [], 'sign': []}]}, 'style': style}


SUBCHECKS = {
    'degenerate': SubCheck(run_case, enumerate=_degenerate, exhaustive={'quick': True, 'thorough': True},
                           note='schemas with no rule at all and with a single rule'),
    'large-schemas': SubCheck(run_large, strategy=lambda tier: _large_case(), examples={'quick': 40, 'thorough': 600},
                              note='60..140 rules x 1..4 patterns each: several hundred pattern edges'),
    'schemas': SubCheck(run_case, strategy=lambda tier: _case('base'), examples={'quick': 800, 'thorough': 16000}),
    'schemas-family': SubCheck(run_case, strategy=lambda tier: _case('family'), examples={'quick': 600, 'thorough': 12000},
                               note='redefinitions with identical name pattern, sibling rules sharing a prefix, rules referenced twice'),
    'schemas-typed-twins': SubCheck(run_case, strategy=lambda tier: _case('twins'), examples={'quick': 700, 'thorough': 10000},
                                    note='family-mode schemas whose literals a / 32=a / 33=a are equal in value and differ only in component type'),
    'schemas-templated': SubCheck(run_case, strategy=lambda tier: st.fixed_dictionaries({
        'schema': G.templated_schema(), 'style': st.integers(0, 5), 'moves': st.just([])}),
        examples={'quick': 320, 'thorough': 5000}, note='see C12'),
    'schemas-many-patterns': SubCheck(run_case, strategy=lambda tier: _case('many'), examples={'quick': 250, 'thorough': 5000},
                                      note='14 pattern names: pattern numbers reach two digits'),
}
