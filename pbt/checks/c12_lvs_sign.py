"""C12 - the signing check holds exactly when the schema lets that key sign that packet."""
import lark
from hypothesis import strategies as st

from ndn.app_support.light_versec import DEFAULT_USER_FNS, Checker, LvsModelError, SemanticError, compile_lvs
from ndn.app_support.light_versec import binary as bny

from .. import lvs_gen as G
from ..core import Result, SubCheck
from ..refs import lvs_ref as L
from ..refs import tlv as T
from .c11_lvs_match import MAX_CHAINS, chain_count

PROPERTY_ID = 'C12'
RULE = ('C11 schema generator biased to signing structure (chains of rules, alternatives "<= #a | #b", named patterns shared between '
        'packet and key rules, constraints on shared patterns in the key rule, redefinitions with different signer lists). Pairs: ALL '
        '(packet, key) pairs over the names that match some rule plus a sample of non-matching names (<= 10^4 pairs per schema; names '
        'of length 0..4 over schema literals + 2 fresh components), each side optionally suffixed with an implicit-digest component and handed '
        'over as list / tuple / one-shot iterator / generator / URI / wire; rules optionally moved out of dependency order in the text. '
        'Oracle: reference signing relation (exists definition D matching the packet with bindings B, signer K listed in D, chain of K '
        'matching the key under initial bindings B with ALL of K\'s constraints evaluated); corollary check True => key matches some '
        'rule. Both directions, direct checker, after save()/load(), and on an equivalent model whose signer lists and edge lists are in '
        'reverse order. Non-trivial = a shared named pattern constrained in the key '
        'rule and both answers occur among the pairs; distinct key = schema hash.')
ASSUMPTIONS = [
    'same generator preconditions as C11',
    'schemas whose compiled tree has a signing cycle (identical name patterns signing each other) are discarded and counted',
]


def run_case(case):
    r = Result()
    sch = case['schema']
    text = L.render(sch, case.get('style', 0), case.get('moves', ()))
    # user functions may consult application state (an enrolment / revocation table): what they answer NOW is what counts.  Here
    # every function's answer is inverted while `mood['inv']` is set (second pass below)
    mood = {'inv': False}
    fns = {k_: (f_ if k_ in DEFAULT_USER_FNS else (lambda c_, a_, f_=f_: (not f_(c_, a_)) if mood['inv'] else f_(c_, a_)))
           for k_, f_ in G.user_fns().items()}      # (the library runs with the $eq / $eq_type it ships: those stay as they are)
    if chain_count(sch) > MAX_CHAINS:
        r.discarded = True
        return r
    try:
        lib_fns = {**fns, **DEFAULT_USER_FNS}       # the library runs with the $eq / $eq_type it ships
        checker = Checker(compile_lvs(text), lib_fns)
        loaded = Checker.load(checker.save(), lib_fns)
        # an equivalent model as another tool may have written it: the binary format prescribes no order for the signer ids of
        # a node nor for its edges
        m2 = bny.LvsModel.parse(checker.save())
        for nd in m2.nodes:
            nd.sign_cons = list(reversed(nd.sign_cons))
            nd.v_edges = list(reversed(nd.v_edges))
            nd.p_edges = list(reversed(nd.p_edges))
        reordered = Checker(m2, lib_fns)
    except SemanticError as e:
        if 'never occurs before' in str(e) or 'Loop detected' in str(e):
            r.discarded = True
            return r
        return r.bad('C12/compile-refused-wellformed/SemanticError', f'{e} :: {text}')
    except LvsModelError as e:
        return r.bad('C12/compile-refused-wellformed/LvsModelError', f'{e} :: {text}')
    except lark.LarkError as e:
        return r.bad('C12/harness-render', f'{e} :: {text}')
    except Exception as e:
        return r.bad(f'C12/compile-raised/{type(e).__name__}', f'{e!r} :: {text}')
    ex = L.expand(sch)
    words = G.name_alphabet(sch)
    longest = max((len(ch.items) for chains in ex.values() for ch in chains), default=0)
    names = G.all_names(words, min(4, longest))
    matching = [n for n in names if L.matches_any(sch, n, fns, ex)]
    others = [n for i, n in enumerate(names) if i % 97 == case.get('salt', 0) % 97][:6]
    pool = matching[:64] + others
    digest = T.enc_tlv(1, b'\x09' * 32)
    yes = no = 0
    for i, pkt in enumerate(pool):
        for j, key in enumerate(pool):
            want = L.can_sign(sch, pkt, key, fns, ex)
            yes += want
            no += not want
            p2 = pkt + [digest] if (i + j) % 5 == 0 and pkt else pkt
            if (i + j) % 11 == 3 and pkt:
                # of two trailing implicit digests only the last one is the packet's own; the other is a component of the name
                p2 = pkt + [digest, digest]
                want = L.can_sign(sch, pkt + [digest], key, fns, ex)
            k2 = key + [digest] if (i + 2 * j) % 7 == 0 and key else key
            held = None
            if (i + j) % 4 == case.get('salt', 0) % 4 and matching:
                # the application is in the middle of iterating over the matches of another name on the same checker
                held = iter(checker.match(matching[(i + j) % len(matching)]))
                next(held, None)
            for label, ck in (('direct', checker), ('loaded', loaded), ('reordered', reordered)):
                try:
                    if label == 'direct':
                        # names are handed over in every legal form (list / tuple / one-shot iterator / generator / URI / wire)
                        got = bool(ck.check(_rep(p2, i + 3 * j), _rep(k2, 2 * i + j)))
                    else:
                        got = bool(ck.check(p2, k2))
                except Exception as e:
                    r.bad(f'C12/check-raised/{type(e).__name__}', f'{e!r} pkt={_show(p2)} key={_show(k2)} :: {text}')
                    break
                if got != want:
                    kind = 'allows-forbidden' if got else 'refuses-allowed'
                    nomatch = '' if L.matches_any(sch, key, fns, ex) else '/key-matches-no-rule'
                    r.bad(f'C12/{label}/{kind}{nomatch}{"/while-a-match-iterator-is-open" if held is not None and label == "direct" else ""}',
                          f'pkt={_show(p2)} key={_show(k2)} :: {text}')
                    break
            if held is not None:
                for _ in held:
                    pass
            if r.violations:
                break
        if r.violations:
            break
    if not r.violations and 'fn' in str(sch):
        # second pass on the SAME checker objects after the application state behind the user functions has changed
        mood['inv'] = True
        try:
            for i, pkt in enumerate(pool[:10]):
                for j, key in enumerate(pool[:10]):
                    want = L.can_sign(sch, pkt, key, fns, ex)
                    for label, ck in (('direct', checker), ('loaded', loaded)):
                        try:
                            got = bool(ck.check(list(pkt), list(key)))
                        except Exception as e:
                            r.bad(f'C12/check-raised/{type(e).__name__}/after-user-function-state-change', f'{e!r} pkt={_show(pkt)} key={_show(key)} :: {text}')
                            break
                        if got != want:
                            r.bad(f'C12/{label}/{"allows-forbidden" if got else "refuses-allowed"}/after-user-function-state-change',
                                  f'pkt={_show(pkt)} key={_show(key)} :: {text}')
                            break
                    if r.violations:
                        break
                if r.violations:
                    break
        finally:
            mood['inv'] = False
    shared = _shared_constrained(sch)
    nontrivial = (shared or case.get('templated')) and yes > 0 and no > 0
    r.key = text if nontrivial else None
    r.classes = ('shared-constrained' if shared else 'plain', f'yes:{"0" if not yes else "some"}', f'pairs:{min(len(pool), 99) // 10 * 10}+')
    return r


def _shared_constrained(sch):
    """Some rule listed as a signer constrains a named pattern that also occurs in a rule it signs."""
    by_id = {}
    for rl in sch['rules']:
        by_id.setdefault(rl['id'], []).append(rl)
    for rl in sch['rules']:
        pats = {it['pat'] for it in rl['name'] if 'pat' in it and not it['pat'].startswith('_')}
        for k in rl['sign']:
            for kr in by_id.get(k, []):
                for cs in kr['cons']:
                    for t in cs:
                        if t['pat'] in pats:
                            return True
    return False


def _rep(name, k):
    k %= 7
    if k <= 1:
        return list(name)
    if k == 2:
        return tuple(name)
    if k == 3:
        return iter(list(name))
    if k == 4:
        return (c for c in list(name))
    js = [[T.read_num(c, 0, len(c))[0], bytes(c[T.read_tlv(c, 0, len(c))[2]:]).hex()] for c in name]
    from .. import pkt as P
    return P.name_in_rep(js, 3 if k == 5 else 5)


def _show(name):
    return '/' + '/'.join(bytes(c).hex() for c in name)


def _case(mode='base'):
    return st.fixed_dictionaries({'schema': G.schema(signing_bias=True, max_rules=6, mode=mode), 'style': st.integers(0, 5),
                                  'salt': st.integers(0, 96),
                                  'moves': st.one_of(st.just([]), st.just([]),
                                                     st.lists(st.tuples(st.integers(0, 7), st.integers(0, 7)).map(list), min_size=1, max_size=2))})


SUBCHECKS = {
    'schemas': SubCheck(run_case, strategy=lambda tier: _case('base'), examples={'quick': 300, 'thorough': 8000}),
    'schemas-family': SubCheck(run_case, strategy=lambda tier: _case('family'), examples={'quick': 250, 'thorough': 6000},
                               note='redefinitions with identical name pattern but other signers, sibling rules sharing a prefix'),
    'schemas-typed-twins': SubCheck(run_case, strategy=lambda tier: _case('twins'), examples={'quick': 150, 'thorough': 4000},
                                    note='literals equal in value, different in component type'),
    'schemas-templated': SubCheck(run_case, strategy=lambda tier: st.fixed_dictionaries({
        'schema': G.templated_schema(), 'style': st.integers(0, 5), 'salt': st.integers(0, 96), 'moves': st.just([]),
        'templated': st.just(True)}),
        examples={'quick': 240, 'thorough': 4000}, note='one named pattern bound at different positions by two packet definitions with different signers; a '
                          'multi-shape rule referred to two or three times by a signer rule'),
    'schemas-many-patterns': SubCheck(run_case, strategy=lambda tier: _case('many'), examples={'quick': 200, 'thorough': 6000},
                                      note='14 pattern names: pattern numbers reach two digits'),
}
