"""C19 - segmented fetch yields every segment once, in order, tolerating bounded loss."""
import asyncio
import itertools

from hypothesis import strategies as st

from ndn.app_support.segment_fetcher import segment_fetcher

from .. import pkt as P
from ..core import Result, SubCheck
from ..refs import tlv as T
from ..sim import net
from ..sim.appsim import AppSim, exc_site

PROPERTY_ID = 'C19'
RULE = ('Legacy NDNApp + scripted producer on the virtual loop. Object: unsegmented, or 1..7 segments under /obj[/v=N]; FinalBlockId on '
        'the last segment only or on all; optionally one segment (or the unsegmented object) with present-but-empty Content; discovery (prefix Interest) answered by segment k for any k or by the unsegmented Data; '
        'retry_times 1..4 (and 0 without losses); a loss matrix (discovery/segment x attempt) biased to "r-1 losses then success" and "exactly r losses"; '
        'optionally a Nack or a validator rejection on one segment; optionally (when every row loses fewer than r Interests) a second concurrent fetch of the '
        'same object started 0 / 1 / 40 / 60 ms later that must yield the same. Oracle: yielded list == contents 0..last each once in order (or the '
        'single content) when every row has fewer than r consecutive losses; otherwise InterestTimeout after exactly the preceding '
        'segments were yielded and exactly r Interests were seen for the exhausted one; Nack / ValidationFailure propagate at that '
        'segment; the producer never sees an Interest beyond the final segment. The sub-space N<=4, r<=3 with every loss matrix of '
        '<= r losses per row is enumerated exhaustively. Non-trivial = discovery answered by k != 0, or a loss followed by success, or '
        'exhaustion; distinct key = (N, k, r, loss-pattern class, fault).')
ASSUMPTIONS = [
    'the producer marks at least the last segment with FinalBlockId (otherwise the end of the object is undefined)',
    'responses arrive immediately or after a fixed latency of at most half the configured timeout; a lost response is simply not sent',
    'retry_times=0 is exercised only without losses: nothing timed out, so the fetch must deliver the object (every Interest sent once)',
]

PREFIX = [net.comp('obj')]
TIMEOUT_MS = 100


def seg(n):
    return T.enc_tlv(50, T.enc_nni(n))


EMPTY_SEG = [None]       # index of a segment whose Content is present but empty (set per case)


def content_of(i):
    if i == EMPTY_SEG[0]:
        return b''
    return b'segment-%d-' % i + bytes([i]) * (i % 5)


def run_case(case):
    r = Result()
    sim = AppSim('legacy')
    sim.start()
    try:
        _run(sim, case, r)
    finally:
        sim.finish()
        sim.close()
    return r


def _run(sim, case, r):
    N = case['n']                       # 0 => unsegmented object
    EMPTY_SEG[0] = case.get('empty_seg')
    whole = b'' if case.get('empty_seg') == 0 else b'whole-object'
    rt_arg = case['retry']
    rt = max(1, rt_arg)                  # retry_times=0: 'no retry' - every Interest is still sent once (see ASSUMPTIONS)
    version = [T.enc_tlv(54, T.enc_nni(case['version']))] if case['version'] is not None else []
    # the object's own name may end with a generic component whose OCTETS look like something else (0x00 + a number - the
    # marker-based segment convention of old; a TLV header): only a component of the segment TYPE is a segment number
    tail = [T.enc_tlv(8, bytes.fromhex(case['tail']))] if case.get('tail') else []
    base = PREFIX + version + tail
    last = N - 1
    ask = list(base) if (tail and case.get('ask_tail')) else list(PREFIX)
    if case.get('ask_segment') is not None and N > 0:
        # the application passes the full name of one segment (e.g. from a link it was given): discovery is answered by it
        ask = base + [seg(case['ask_segment'] % N)]
        case = dict(case, disc_k=case['ask_segment'] % N)
    loss = case['loss']                 # dict row -> list of bool per attempt (True = lost); rows: 'd', '0', '1', ...
    attempts = {}
    beyond = []
    seen = []
    loop = sim.vl.loop
    face = sim.face
    orig_send = face.send

    timeout_ms = case.get('timeout', TIMEOUT_MS)
    latency = min(case.get('latency_ms', 0), timeout_ms // 2) / 1000     # every response takes this long (well within the timeout)

    def respond(w):
        if case.get('lp') and net.outer_type(w) == 6:
            # the forwarder attaches a link-layer header (CongestionMark): the Data arrives inside an LpPacket
            w = net.lp_wrap(w, extra=[(0x0340, b'\x01')])
        if latency:
            loop.call_later(latency, lambda: loop.create_task(sim.app.face.callback(net.outer_type(w), w)))
        else:
            loop.call_soon(lambda: loop.create_task(sim.app.face.callback(net.outer_type(w), w)))

    def data_for(i):
        fb = seg(last) if (i == last or case['final_on_all']) else None
        if fb is None and case.get('other_final'):
            # a FinalBlockId that is NOT this segment's own name component (another component type carrying this segment's
            # number, or a version): it does not designate this segment as the final one
            kind = case['other_final']
            fb = T.enc_tlv({'seq': 58, 'off': 52, 'ver': 54, 'gen': 8}[kind], T.enc_nni(i))
        return net.data_wire(base + [seg(i)], content=content_of(i), final_block=fb, freshness=1000)

    if case.get('ask_full') and (N == 0 or case.get('ask_segment') is not None):
        # the application passes a FULL name (ending with the implicit digest of the packet, e.g. taken from a manifest)
        import hashlib
        target = net.data_wire(base, content=whole, freshness=1000) if N == 0 else data_for(case['disc_k'] % N)
        ask = (list(base) if N == 0 else ask) + [T.enc_tlv(1, hashlib.sha256(target).digest())]
    nonces = set()

    def send(data):
        orig_send(data)
        w = bytes(data)
        if net.outer_type(w) != 5:
            return
        si = P.strict_interest(w)
        name = si['name']
        if (tuple(name), si['nonce']) in nonces:
            # what a forwarder's loop detection sees as a duplicate is not a new request for the segment
            r.bad('C19/retransmission-reuses-nonce', f'Interest {len(seen)} repeats the Nonce {si["nonce"]} of an earlier Interest for the same name')
        nonces.add((tuple(name), si['nonce']))
        if name == ask and si['can_be_prefix']:
            row = 'd'
        elif name[:-1] == base and name[-1][:1] == b'\x32':
            el = T.read_tlv(name[-1], 0, len(name[-1]))
            row = str(int.from_bytes(name[-1][el[2]:el[3]], 'big'))
        else:
            row = 'other'
        seen.append(row)
        k = attempts.get(row, 0)
        attempts[row] = k + 1
        if row == 'other':
            return
        if row != 'd' and int(row) > last:
            beyond.append(row)
            return
        lost = loss.get(row, [])
        if k < len(lost) and lost[k]:
            return
        if case['fault'] and case['fault'][0] == 'nack' and row == str(case['fault'][1]):
            respond(net.lp_wrap(w, nack_reason=150))
            return
        if row == 'd':
            if N == 0:
                respond(net.data_wire(base, content=whole, freshness=1000))
            else:
                respond(data_for(case['disc_k'] % N))
        else:
            respond(data_for(int(row)))
    face.send = send

    reject_seg = case['fault'][1] if case['fault'] and case['fault'][0] == 'reject' else None

    vms = case.get('validator_ms', 0)

    async def validator(name, sig):
        if vms:
            # (checking a segment may take longer than a retransmission timeout: that is no loss)
            await asyncio.sleep(vms / 1000)
        if reject_seg is not None and bytes(name[-1]) == seg(reject_seg):
            return False
        return True
    if case.get('falsy_validator'):
        # a callable policy OBJECT that happens to be falsy (it has a __len__)
        from ..sim.appsim import shape_callable
        validator = shape_callable(validator, case['falsy_validator'])

    out, out2 = [], []
    box, box2 = {}, {}
    # a second fetch of the same object running concurrently in the same application
    # With losses the twin runs only when every row loses fewer than retry_times Interests in total: then neither fetch can lose
    # retry_times attempts of its own on any segment, so both must deliver the whole object (attempt counts are not compared)
    twin = case.get('twin') if not case['fault'] and all(sum(map(bool, v)) < rt for v in loss.values()) else None

    async def consume(out, box, delay=0):
        try:
            if delay:
                await asyncio.sleep(delay / 1000)
            # the name in any legal form (list / tuple / one-shot generator / iterator / URI-free wire), and the validator either
            # passed to the fetcher or installed as the application's data validator (then the fetcher gets none)
            form = case.get('name_form', 0) % 5
            comps_ = list(ask)
            name_arg = comps_ if form == 0 else tuple(comps_) if form == 1 else (c_ for c_ in comps_) if form == 2 else \
                iter(comps_) if form == 3 else T.enc_tlv(7, b''.join(comps_))
            kw = {'validator': validator}
            if case.get('validator_via') == 'app':
                sim.app.data_validator = validator
                kw = {}
            async for c in segment_fetcher(sim.app, name_arg, timeout=timeout_ms, retry_times=rt_arg, **kw):
                out.append(None if c is None else bytes(c))
            box['end'] = 'done'
        except Exception as e:
            box['end'] = type(e).__name__
            box['site'] = exc_site(e)

    async def spawn():
        t1 = asyncio.get_running_loop().create_task(consume(out, box))
        if twin is not None:
            t2 = asyncio.get_running_loop().create_task(consume(out2, box2, twin))
            return asyncio.gather(t1, t2)
        return t1
    task = sim.vl.run(spawn())
    for _ in range(400):
        if task.done():
            break
        sim.vl.advance(timeout_ms / 1000)
    if not task.done():
        task.cancel()
        sim.vl.settle()
        r.bad('C19/does-not-terminate', f'{len(seen)} Interests seen: {seen[:30]}')
        return
    # ---- reference ------------------------------------------------------------------------------------------------------------
    def exhausted(row):
        lost = loss.get(row, [])
        return len(lost) >= rt and all(lost[:rt])

    def n_attempts(row):
        lost = loss.get(row, [])
        k = 0
        while k < len(lost) and lost[k]:
            k += 1
        return min(k + 1, rt) if not exhausted(row) else rt
    want_out, want_end, want_attempts = [], 'done', {}
    fault = case['fault']
    rows = []
    if exhausted('d'):
        want_end = 'InterestTimeout'
        want_attempts['d'] = rt
    else:
        want_attempts['d'] = n_attempts('d')
        if N == 0:
            want_out = [whole]
        else:
            k = case['disc_k'] % N
            if fault and fault[0] == 'reject' and fault[1] == k:
                want_end = 'ValidationFailure'       # the discovery answer itself is rejected
            else:
                start = 0
                if k == 0:
                    want_out.append(content_of(0))
                    start = 1
                    done = last == 0
                else:
                    done = False
                i = start
                while not done:
                    row = str(i)
                    if exhausted(row):
                        want_end = 'InterestTimeout'
                        want_attempts[row] = rt
                        break
                    want_attempts[row] = n_attempts(row)
                    if fault and fault[1] == i and not (fault[0] == 'nack' and False):
                        want_end = 'InterestNack' if fault[0] == 'nack' else 'ValidationFailure'
                        break
                    want_out.append(content_of(i))
                    if i == last:
                        done = True
                    i += 1
    if fault and fault[0] == 'nack' and fault[1] == 'd' and not exhausted('d'):
        want_out, want_end = [], 'InterestNack'
        want_attempts = {'d': n_attempts('d')}
    got_end = box.get('end')
    label = f'N={N},k={case["disc_k"] % N if N else "-"},r={rt}'
    if out != want_out:
        kind = 'duplicate' if len(set(map(bytes, [o or b'' for o in out]))) < len(out) else \
            'missing-or-extra' if len(out) != len(want_out) else 'wrong-order-or-content'
        r.bad(f'C19/yield/{kind}', f'{label}: yielded {out} expected {want_out}; end {got_end}/{want_end}; loss={loss}; seen={seen}')
    if got_end != want_end:
        r.bad(f'C19/outcome/{got_end}/expected={want_end}', f'{label}: loss={loss} fault={fault} seen={seen} site={box.get("site")}')
    if twin is not None and not r.violations and (out2 != want_out or box2.get('end') != want_end):
        r.bad('C19/concurrent-fetch/second-fetch-differs', f'{label}: second fetch (started {twin} ms later) yielded {out2} end '
              f'{box2.get("end")}; expected {want_out} / {want_end}; seen={seen}')
    if beyond:
        r.bad('C19/interest-beyond-final-segment', f'{label}: rows {beyond}; seen={seen}')
    if not r.violations and twin is None:
        for row, n in want_attempts.items():
            if attempts.get(row, 0) != n:
                r.bad(f'C19/attempt-count/{"exhausted" if exhausted(row) else "recovered"}',
                      f'{label}: row {row} saw {attempts.get(row, 0)} Interests, expected {n}; loss={loss}')
                break
        extra = [row for row in attempts if row not in want_attempts]
        if extra:
            r.bad('C19/unexpected-interest', f'{label}: rows {extra}; seen={seen}')
    if sim.receive_errors:
        r.bad(f'C19/receive-raised/{sim.receive_errors[0].split(":")[0]}', sim.receive_errors[0])
    any_recover = any(lost and lost[0] and not exhausted(row) for row, lost in loss.items() if row in want_attempts)
    any_exh = want_end == 'InterestTimeout'
    knz = N > 0 and case['disc_k'] % N != 0
    nontrivial = knz or any_recover or any_exh
    r.key = (N, case['disc_k'] % N if N else -1, rt, any_recover, any_exh, str(fault), case['final_on_all'],
             case['version'] is not None) if nontrivial else None
    r.classes = (f'N:{N}', f'r:{rt_arg}', 'k!=0' if knz else 'k=0', 'recover' if any_recover else '-', 'exhaust' if any_exh else '-',
                 f'fault:{fault[0] if fault else "none"}') + (('concurrent-twin',) if twin is not None else ())


@st.composite
def _case(draw):
    n = draw(st.integers(0, 7))
    rt = draw(st.sampled_from([0, 1, 1, 2, 2, 3, 3, 4]))
    rows = ['d'] + [str(i) for i in range(n)]
    loss = {}
    for row in rows:
        mode = draw(st.sampled_from(['none', 'none', 'none', 'r-1', 'r', 'random'])) if rt else 'none'
        if mode == 'r-1':
            loss[row] = [True] * (rt - 1)
        elif mode == 'r':
            loss[row] = [True] * rt
        elif mode == 'random':
            loss[row] = draw(st.lists(st.booleans(), max_size=rt + 1))
    fault = None
    if n and draw(st.integers(0, 4)) == 0:
        fault = [draw(st.sampled_from(['nack', 'reject'])), draw(st.integers(0, n - 1))]
    elif draw(st.integers(0, 14)) == 0:
        fault = ['nack', 'd']
    return {'n': n, 'retry': rt, 'disc_k': draw(st.integers(0, 7)), 'final_on_all': draw(st.booleans()),
            'other_final': draw(st.sampled_from([None, None, None, 'seq', 'off', 'ver', 'gen'])),
            'ask_segment': draw(st.one_of(st.none(), st.none(), st.none(), st.integers(0, 7))),
            'version': draw(st.one_of(st.none(), st.sampled_from([0, 1, 255, 256, 2 ** 32]))), 'loss': loss, 'fault': fault,
            'tail': draw(st.sampled_from([None, None, None, '0007', '0000', '0000000007', '000000000000000001', '00', 'fd0100', '3201'])),
            'ask_tail': draw(st.booleans()),
            'twin': draw(st.sampled_from([None, None, 0, 1, 40, 60])),
            'empty_seg': draw(st.sampled_from([None, None, None, 0, 1, 2, 6])),
            'validator_ms': draw(st.sampled_from([0, 0, 0, 30, 150, 600])), 'falsy_validator': draw(st.sampled_from([False, False, False, True, 'lambda', 'object', 'future', 'partial', 'wrapped'])),
            'lp': draw(st.sampled_from([False, False, True])), 'ask_full': draw(st.sampled_from([False, False, True])),
            'name_form': draw(st.integers(0, 4)), 'validator_via': draw(st.sampled_from(['arg', 'arg', 'app'])),
            'timeout': draw(st.sampled_from([100, 100, 4000, 1000, 50])), 'latency_ms': draw(st.sampled_from([0, 0, 20, 150, 400]))}


def _enum(tier):
    """N <= 4 (quick: <= 3), r <= 3 (quick: <= 2): every discovery answer and every matrix of 'j losses then success' with j <= r per row."""
    maxn, maxr = (3, 2) if tier == 'quick' else (4, 3)
    for n in range(0, maxn + 1):
        for rt in range(1, maxr + 1):
            rows = ['d'] + [str(i) for i in range(n)]
            for k in (range(n) if n else [0]):
                for combo in itertools.product(range(rt + 1), repeat=len(rows)):
                    if tier == 'quick' and sum(1 for c in combo if c) > 2:
                        continue
                    loss = {row: [True] * c for row, c in zip(rows, combo) if c}
                    yield {'n': n, 'retry': rt, 'disc_k': k, 'final_on_all': (n + k) % 2 == 0, 'version': 3 if k % 2 else None,
                           'loss': loss, 'fault': None}


SUBCHECKS = {
    'matrices': SubCheck(run_case, enumerate=_enum, exhaustive={'quick': False, 'thorough': True},
                         note='thorough: N<=4, r<=3, every discovery answer k and every per-row count of leading losses 0..r (complete); '
                              'quick: N<=3, r<=2, at most two lossy rows'),
    'objects': SubCheck(run_case, strategy=lambda tier: _case(), examples={'quick': 4000, 'thorough': 60000}),
}
