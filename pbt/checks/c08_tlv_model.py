"""C08 - TLV models encode to exact, minimal TLV and decode back to equal values."""
import enum
import importlib
import struct

from hypothesis import strategies as st

import ndn.encoding as enc
from ndn.encoding import (BoolField, BytesField, DecodeError, IncludeBase, MapField, ModelField, NameField, RepeatedField,
                          TlvModel, UintField)

from .. import strats as S
from ..core import Result, SubCheck
from ..refs import tlv as T

PROPERTY_ID = 'C08'
RULE = ('(a) generated model classes built with type(): 1..6 fields of kind uint (fixed_len None/1/2/4/8; int/Enum/Flag base), bool, '
        'bytes, text, name, sub-model (depth<=3, optional ignore_critical), repeated(uint/bytes/text/name/model), map(uint|text -> '
        'uint/bytes/text/model); type numbers pairwise distinct inside a model and drawn around 1, 252/253, 65535/65536, 2^32-1; '
        'single-inheritance chains and two-base classes assembled with IncludeBase at a drawn position with field overrides. '
        '(b) every concrete model shipped with the library (NFD management, NDNLPv2, LVS binary, SVS, certificate extensions, '
        'SignatureInfo/KeyLocator/MetaInfo/Links) described by reading its field descriptors. Values: integers at every width edge, '
        'text with 2/3/4-byte UTF-8, byte strings of 0/252/253/65535/65536+ bytes, lists/maps of 0..4. Oracle: independent encoder '
        '(declared order, shortest T/L, smallest legal integer width) == encode(); encoded_length() == len; strict walk; parse() '
        'equal (TlvModel.__eq__ and a normalised field walk); encode(wire=<0xAA-filled caller buffer>, offset=0..3) writes the same '
        'bytes and nothing else; Name fields re-assigned in 10 representations (tuple, generator, memoryviews, URI, wire, mixed) encode '
        'identically; unknown non-critical element inserted at EVERY gap => equal decode; '
        'unknown critical inserted / critical field repeated / two adjacent critical fields swapped => DecodeError (unless the '
        'enclosing ModelField is ignore_critical). Non-trivial = depth>=2 or repeated/map field, AND a boundary value; distinct key = '
        '(shape hash, boundary classes).')
ASSUMPTIONS = [
    'NameField always uses type 7 (documented); BoolField False and None are the same value (documented)',
    'map keys are uint or text (the library refuses other key kinds in its error message); key order is insertion order',
    'field defaults are None (a default changes what an omitted field decodes to, by design)',
    'critical = odd type number',
]


class Color(enum.Enum):
    A = 0
    B = 1
    C = 255
    D = 256
    E = 65536


class Perm(enum.Flag):
    R = 1
    W = 2
    X = 4
    BIG = 256


# ---------------------------------------------------------------------------------------------------------------
# descriptions: JSON.  fd = {'k': kind, 't': type, ...}
# ---------------------------------------------------------------------------------------------------------------
_TYPES = st.one_of(st.integers(1, 60), st.sampled_from([250, 251, 252, 253, 254, 255, 256, 65534, 65535, 65536, 65537,
                                                        2 ** 32 - 2, 2 ** 32 - 1]), st.integers(1, 2 ** 32 - 1))


def _leaf(typ_s):
    return st.one_of(
        st.fixed_dictionaries({'k': st.just('uint'), 't': typ_s, 'fixed': st.sampled_from([None, None, 1, 2, 4, 8]),
                               'base': st.sampled_from(['int', 'int', 'int', 'enum', 'flag'])}),
        st.fixed_dictionaries({'k': st.just('bytes'), 't': typ_s}),
        st.fixed_dictionaries({'k': st.just('text'), 't': typ_s}),
    )


@st.composite
def model_desc(draw, depth=0, max_fields=6):
    n = draw(st.integers(1, max_fields if depth == 0 else 3))
    used = {7}
    fields = []

    def fresh_type():
        for _ in range(50):
            t = draw(_TYPES)
            if t not in used:
                used.add(t)
                return t
        t = max(used) + 1
        used.add(t)
        return t
    has_name = False
    for i in range(n):
        kind = draw(st.sampled_from(['uint', 'uint', 'bool', 'bytes', 'text', 'name', 'model', 'rep', 'map']))
        if kind == 'name' and has_name:
            kind = 'uint'
        if kind in ('model',) and depth >= 2:
            kind = 'bytes'
        if kind == 'name':
            has_name = True
            fd = {'k': 'name', 't': 7}
        elif kind == 'bool':
            fd = {'k': 'bool', 't': fresh_type()}
        elif kind in ('uint', 'bytes', 'text'):
            fd = draw(_leaf(st.just(0)))
            while fd['k'] != kind:
                fd = draw(_leaf(st.just(0)))
            fd['t'] = fresh_type()
            if draw(st.integers(0, 4)) == 0 and fd.get('base', 'int') == 'int':
                # a declared default (documented: used when the field is not assigned before encoding / absent when parsing)
                fd['default'] = draw(value_for(dict(fd), allow_none=False))
        elif kind == 'model':
            fd = {'k': 'model', 't': fresh_type(), 'm': draw(model_desc(depth + 1)), 'ic': draw(st.booleans())}
        elif kind == 'rep':
            ek = draw(st.sampled_from(['uint', 'bytes', 'text', 'name', 'model']))
            if ek == 'name' and has_name:
                ek = 'uint'
            if ek == 'model' and depth >= 2:
                ek = 'uint'
            if ek == 'name':
                has_name = True
                e = {'k': 'name', 't': 7}
            elif ek == 'model':
                e = {'k': 'model', 't': fresh_type(), 'm': draw(model_desc(depth + 1)), 'ic': False}
            else:
                e = draw(_leaf(st.just(0)))
                while e['k'] != ek:
                    e = draw(_leaf(st.just(0)))
                e['t'] = fresh_type()
                if e['k'] == 'uint':
                    e['base'] = 'int'
            fd = {'k': 'rep', 't': e['t'], 'e': e}
        else:
            kk = draw(st.sampled_from(['uint', 'text']))
            key = {'k': kk, 't': fresh_type()}
            if kk == 'uint':
                key.update(fixed=None, base='int')
            vk = draw(st.sampled_from(['uint', 'bytes', 'text', 'model', 'name']))
            if vk == 'model' and depth >= 2:
                vk = 'bytes'
            if vk == 'name' and has_name:
                vk = 'bytes'
            if vk == 'name':
                has_name = True
                val = {'k': 'name', 't': 7}
            elif vk == 'model':
                val = {'k': 'model', 't': fresh_type(), 'm': draw(model_desc(depth + 1)), 'ic': False}
            else:
                val = {'k': vk, 't': fresh_type()}
                if vk == 'uint':
                    val.update(fixed=draw(st.sampled_from([None, 2, 8])), base='int')
            fd = {'k': 'map', 't': key['t'], 'key': key, 'val': val}
        fd['n'] = f'f{i}'
        fields.append(fd)
    return {'fields': fields}


# ---- values -------------------------------------------------------------------------------------------------------------
_UINT_EDGES = [0, 1, 0xFF, 0x100, 0xFFFF, 0x10000, 0xFFFFFFFF, 0x100000000, 2 ** 64 - 1]
_TEXT = st.one_of(st.text(alphabet='ab/ =%', max_size=6), st.text(max_size=8),
                  st.sampled_from(['', 'é', '漢字', '😀x', 'Ω≈ç√', 'a' * 252, 'é' * 127, 'é' * 200,
                                   # characters that codecs and text tools like to treat specially
                                   '\ufeffbom', '\ufeff', 'a\x00b', '\x00', ' x ', '\r\n', 'e\u0301', '\u200b', '\ufffd']))
_BYTES_SPEC = st.one_of(st.binary(max_size=8).map(lambda b: {'hex': b.hex()}),
                        st.sampled_from([0, 1, 252, 253, 254, 300]).map(lambda n: {'len': n}),
                        st.sampled_from([65535, 65536, 65540]).map(lambda n: {'len': n}))


_PATTERN = bytes((i * 13 + 5) & 0xFF for i in range(256))     # period 256


def _bytes_of(spec):
    if 'hex' in spec:
        return bytes.fromhex(spec['hex'])
    n = spec['len']
    return (_PATTERN * (n // 256 + 1))[:n]


def value_for(fd, allow_none=True):
    k = fd['k']
    if k == 'uint':
        fixed = fd.get('fixed')
        hi = 2 ** (8 * fixed) - 1 if fixed else 2 ** 64 - 1
        if fd.get('base') == 'enum':
            s = st.sampled_from([m.value for m in Color if m.value <= hi])
        elif fd.get('base') == 'flag':
            s = st.sampled_from([v for v in (1, 2, 3, 4, 7, 256, 257, 263) if v <= hi])
        elif fd.get('base') == 'members':
            s = st.sampled_from([v for v in fd['members'] if v <= hi] or [0])
        else:
            s = st.one_of(st.sampled_from([e for e in _UINT_EDGES if e <= hi]), st.integers(0, hi))
    elif k == 'bool':
        s = st.sampled_from([True, True, False])
        allow_none = True
    elif k == 'bytes':
        s = _BYTES_SPEC
    elif k == 'text':
        s = _TEXT
    elif k == 'name':
        # (now and then a name whose encoding is longer than 252 bytes: its length then takes 3 bytes)
        s = st.one_of(S.name(0, 4, 12), S.name(0, 4, 12), S.name(0, 4, 12), S.name(1, 3, 300))
    elif k == 'model':
        s = model_value(fd['m'])
    elif k == 'rep':
        elem = value_for(fd['e'], allow_none=False)
        short = st.lists(elem, max_size=4)
        if fd['e']['k'] in ('uint', 'bytes', 'text', 'bool'):
            # many small items rather than a few: a short list repeated up to 255 / 256 / 257 / 300 elements
            long = st.tuples(st.lists(elem, min_size=1, max_size=3), st.sampled_from([255, 256, 257, 300])).map(
                lambda t: (t[0] * (t[1] // len(t[0]) + 1))[:t[1]])
            return st.one_of(*([short] * 19 + [long]))
        return short
    elif k == 'map':
        keys = value_for(fd['key'], allow_none=False)
        return st.lists(st.tuples(keys, value_for(fd['val'], allow_none=False)).map(list), max_size=4,
                        unique_by=lambda kv: repr(kv[0]))
    else:
        raise ValueError(k)
    if allow_none and 'default' in fd:
        return st.one_of(st.just('__unset__'), st.just('__unset__'), st.none(), s, s)
    return st.one_of(st.none(), s, s, s) if allow_none else s


def model_value(desc):
    return st.fixed_dictionaries({fd['n']: value_for(fd) for fd in desc['fields']})


# ---- independent encoder -----------------------------------------------------------------------------------------------
def enc_field(fd, v):
    k = fd['k']
    if k == 'rep':
        return b''.join(enc_field(fd['e'], x) for x in (v or []))
    if k == 'map':
        return b''.join(enc_field(fd['key'], kk) + enc_field(fd['val'], vv) for kk, vv in (v or []))
    if v == '__unset__':
        v = fd['default']
    if v is None:
        return b''
    if k == 'uint':
        return T.enc_tlv(fd['t'], T.enc_nni(v, fd.get('fixed')))
    if k == 'bool':
        return T.enc_tlv(fd['t'], b'') if v else b''
    if k == 'bytes':
        return T.enc_tlv(fd['t'], _bytes_of(v))
    if k == 'text':
        return T.enc_tlv(fd['t'], v.encode('utf-8'))
    if k == 'name':
        return T.enc_tlv(fd['t'], b''.join(S.name_comps(v)))
    if k == 'model':
        return T.enc_tlv(fd['t'], enc_model(fd['m'], v))
    raise ValueError(k)


def enc_model(desc, vals):
    return b''.join(enc_field(fd, vals.get(fd['n'])) for fd in desc['fields'])


# ---- building library classes and instances -----------------------------------------------------------------------
_cls_counter = [0]


def mk_field(fd, classes):
    k = fd['k']
    if k == 'uint':
        base = {'int': int, 'enum': Color, 'flag': Perm}.get(fd.get('base', 'int'), int)
        return UintField(fd['t'], default=fd.get('default'), fixed_len=fd.get('fixed'), val_base_type=base)
    if k == 'bool':
        return BoolField(fd['t'])
    if k == 'bytes':
        return BytesField(fd['t'], default=None if fd.get('default') is None else _bytes_of(fd['default']))
    if k == 'text':
        return BytesField(fd['t'], default=fd.get('default'), is_string=True)
    if k == 'name':
        return NameField()
    if k == 'model':
        return ModelField(fd['t'], mk_class(fd['m'], classes), ignore_critical=fd.get('ic', False))
    if k == 'rep':
        return RepeatedField(mk_field(fd['e'], classes))
    if k == 'map':
        return MapField(mk_field(fd['key'], classes), mk_field(fd['val'], classes))
    raise ValueError(k)


def mk_class(desc, classes):
    """Build (and memoise on the desc object) a TlvModel subclass.  Honour desc['inherit'] when present."""
    key = id(desc)
    if key in classes:
        return classes[key]
    _cls_counter[0] += 1
    inh = desc.get('inherit')
    if not inh:
        attrs = {fd['n']: mk_field(fd, classes) for fd in desc['fields']}
        cls = type(f'Gen{_cls_counter[0]}', (TlvModel,), attrs)
    else:
        # desc['fields'] is the EXPECTED flattened order; inh tells how the class is declared
        bases = []
        for b in inh['bases']:
            battrs = {fd['n']: mk_field(fd, classes) for fd in b['fields']}
            bases.append(type(f'GenBase{_cls_counter[0]}_{len(bases)}', (TlvModel,), battrs))
        attrs = {}
        for item in inh['decl']:
            if 'include' in item:
                attrs[f'_inc{item["include"]}'] = IncludeBase(bases[item['include']])
            else:
                attrs[item['n']] = mk_field(item, classes)
        cls = type(f'GenDerived{_cls_counter[0]}', tuple(bases), attrs)
    classes[key] = cls
    return cls


def _name_rep(v, rep):
    """0 list of bytes | 1..6 as pkt.name_in_rep | 7 tuple of bytes | 8 generator | 9 tuple of memoryviews | 10 tuple with a URI component"""
    if rep == 0:
        return S.name_comps(v)
    if rep <= 6:
        from .. import pkt as P
        return P.name_in_rep(v, rep)
    comps = S.name_comps(v)
    if rep == 7:
        return tuple(comps)
    if rep == 8:
        return (c for c in comps)
    if rep == 9:
        return tuple(memoryview(c) for c in comps)
    from .. import pkt as P
    return tuple(P.name_in_rep(v, 4))


def to_py(fd, v, classes, name_rep=0):
    k = fd['k']
    if k == 'rep':
        return [to_py(fd['e'], x, classes, name_rep) for x in (v or [])]
    if k == 'map':
        # (keys stay hashable: Name keys are not generated; values follow the representation)
        return {to_py(fd['key'], kk, classes): to_py(fd['val'], vv, classes, name_rep) for kk, vv in (v or [])}
    if v is None:
        return None
    if k == 'bytes':
        return _bytes_of(v)
    if k == 'name':
        return _name_rep(v, name_rep)
    if k == 'model':
        return mk_instance(fd['m'], v, classes, name_rep=name_rep)
    return v


def mk_instance(desc, vals, classes, cls=None, name_rep=0):
    cls = cls or mk_class(desc, classes)
    obj = cls()
    for fd in desc['fields']:
        v = vals.get(fd['n'])
        if v == '__unset__':
            continue                                      # never assigned: the declared default applies
        setattr(obj, fd['n'], to_py(fd, v, classes, name_rep))     # explicit None too (constructors may install defaults)
    return obj


def _has_name(desc, vals):
    def f(fd, v):
        k = fd['k']
        if v is None or v == '__unset__':
            return False
        if k == 'name':
            return True
        if k == 'rep':
            return any(f(fd['e'], x) for x in v)
        if k == 'map':
            return any(f(fd['val'], vv) for _kk, vv in v)
        if k == 'model':
            return _has_name(fd['m'], v)
        return False
    return any(f(fd, vals.get(fd['n'])) for fd in desc['fields'])


def norm_py(fd, pv):
    """Normalise a value read from a (parsed) library object into the JSON value domain."""
    k = fd['k']
    if k == 'rep':
        return [norm_py(fd['e'], x) for x in (pv or [])]
    if k == 'map':
        return [[norm_py(fd['key'], kk), norm_py(fd['val'], vv)] for kk, vv in (pv or {}).items()]
    if pv is None:
        return None
    if k == 'uint':
        if fd.get('base') == 'members' and not fd.get('in_list'):
            # a field typed with an Enum / Flag reads back as a MEMBER of that type, the zero-valued one included
            return ['member' if isinstance(pv, enum.Enum) else 'plain-int', pv.value if isinstance(pv, enum.Enum) else int(pv)]
        return pv.value if isinstance(pv, enum.Enum) else int(pv)
    if k == 'bool':
        return bool(pv)
    if k == 'bytes':
        return bytes(pv)
    if k == 'text':
        return pv
    if k == 'name':
        return [bytes(c) for c in pv]
    if k == 'model':
        return norm_model(fd['m'], pv)
    raise ValueError(k)


def norm_model(desc, obj):
    return {fd['n']: norm_py(fd, getattr(obj, fd['n'])) for fd in desc['fields']}


def norm_json(fd, v):
    """Expected normal form from the JSON value."""
    k = fd['k']
    if k == 'rep':
        return [norm_json(fd['e'], x) for x in (v or [])]
    if k == 'map':
        return [[norm_json(fd['key'], kk), norm_json(fd['val'], vv)] for kk, vv in (v or [])]
    if v == '__unset__' or (v is None and fd.get('default') is not None and not fd.get('diamond')):
        v = fd['default']            # encoded default comes back; an omitted field parses to its default (documented)
    if v is None:
        return None
    if k == 'bool':
        return True if v else None
    if k == 'bytes':
        return _bytes_of(v)
    if k == 'name':
        return S.name_comps(v)
    if k == 'model':
        return {f['n']: norm_json(f, v.get(f['n'])) for f in fd['m']['fields']}
    if k == 'uint' and fd.get('base') == 'members' and not fd.get('in_list'):
        return ['member', v]
    return v


def norm_bool_none(x):
    """BoolField: False == None."""
    return x


# ---- wire annotation for the insertion metamorphic tests ---------------------------------------------------------------
def annotate(desc, vals, ignore_critical=False):
    """-> list of nodes: {'typ','bytes'| 'children', 'fd', 'role'} mirroring enc_model, for gap enumeration."""
    out = []
    for fd in desc['fields']:
        v = vals.get(fd['n'])
        out.extend(_annot_field(fd, v, 'field'))
    return {'nodes': out, 'types': _model_types(desc), 'ic': ignore_critical, 'desc': desc}


def _model_types(desc):
    ts = set()
    for fd in desc['fields']:
        if fd['k'] == 'map':
            ts.add(fd['key']['t'])
            ts.add(fd['val']['t'])
        else:
            ts.add(fd['t'])
    return ts


def _annot_field(fd, v, role):
    k = fd['k']
    if k == 'rep':
        return [n for x in (v or []) for n in _annot_field(fd['e'], x, 'rep-elem')]
    if k == 'map':
        out = []
        for kk, vv in (v or []):
            out += _annot_field(fd['key'], kk, 'map-key')
            out += _annot_field(fd['val'], vv, 'map-val')
        return out
    raw = enc_field(fd, v)
    if not raw:
        return []
    node = {'typ': fd['t'], 'raw': raw, 'fd': fd, 'role': role}
    if k == 'model':
        node['sub'] = annotate(fd['m'], v, fd.get('ic', False))
    return [node]


def render(ann):
    out = b''
    for n in ann['nodes']:
        if 'sub' in n:
            out += T.enc_tlv(n['typ'], render(n['sub']))
        elif 'raw' in n:
            out += n['raw']
        else:
            out += T.enc_tlv(n['typ'], n['val'])
    return out


def _free_type(types, odd, salt):
    cand = [0xF1, 0x7F, 0xFFF1, 0x23, 0x3F1] if odd else [0xF0, 0x7E, 0xFFF0, 0x40, 0x3F0]
    cand = cand[salt % len(cand):] + cand[:salt % len(cand)]
    for c in cand:
        if c not in types and c != 7:
            return c
    t = 0x10001 + (0 if odd else 1)
    while t in types:
        t += 2
    return t


def gaps(ann, path=()):
    """Every insertion gap: (path to model annotation, index)."""
    out = [(path, i) for i in range(len(ann['nodes']) + 1)]
    for i, n in enumerate(ann['nodes']):
        if 'sub' in n:
            out += gaps(n['sub'], path + (i,))
    return out


def _get_ann(ann, path):
    for i in path:
        ann = ann['nodes'][i]['sub']
    return ann


def _copy_ann(ann):
    return {'nodes': [dict(n, sub=_copy_ann(n['sub'])) if 'sub' in n else dict(n) for n in ann['nodes']],
            'types': ann['types'], 'ic': ann['ic'], 'desc': ann['desc']}


# ---- the check ---------------------------------------------------------------------------------------------------------
def _boundary_classes(desc, vals, acc):
    for fd in desc['fields']:
        v = vals.get(fd['n'])
        _bc(fd, v, acc)


def _bc(fd, v, acc):
    k = fd['k']
    if k == 'rep':
        for x in v or []:
            _bc(fd['e'], x, acc)
        if v:
            acc.add('rep')
        return
    if k == 'map':
        for kk, vv in v or []:
            _bc(fd['key'], kk, acc)
            _bc(fd['val'], vv, acc)
        if v:
            acc.add('map')
        return
    if v == '__unset__':
        acc.add('default-used')
        v = fd['default']
    if v is None:
        return
    if fd['t'] >= 253:
        acc.add('bigtype')
    if k == 'uint' and v in _UINT_EDGES[2:]:
        acc.add('uint-edge')
    if k == 'text' and any(ord(c) > 127 for c in v):
        acc.add('non-ascii')
    if k == 'bytes' and len(_bytes_of(v)) >= 253:
        acc.add('long-bytes')
    if k == 'text' and len(v.encode()) >= 253:
        acc.add('long-text')
    if k == 'model':
        acc.add('nested')
        _boundary_classes(fd['m'], v, acc)


def _depth(desc):
    d = 1
    for fd in desc['fields']:
        for sub in (fd, fd.get('e', {}), fd.get('val', {})):
            if sub.get('k') == 'model':
                d = max(d, 1 + _depth(sub['m']))
    return d


def check_model(r, tag, desc, vals, cls, classes, salt=0, do_insert=True):
    expected = enc_model(desc, vals)
    try:
        obj = mk_instance(desc, vals, classes, cls)
    except Exception as e:
        r.bad(f'C08/{tag}/assign-raised/{type(e).__name__}', repr(e)[:300])
        return
    try:
        announced = obj.encoded_length()
        wire = bytes(obj.encode())
    except Exception as e:
        cls_ = _exc_class(e, desc, vals)
        r.bad(f'C08/{tag}/encode-raised/{type(e).__name__}/{cls_}', f'{e!r}'[:300])
        return
    if wire != expected:
        i = next((i for i, (a, b) in enumerate(zip(wire, expected)) if a != b), min(len(wire), len(expected)))
        r.bad(f'C08/{tag}/wire-differs', f'len {len(wire)} vs {len(expected)} first diff at {i}: {wire[max(0, i - 6):i + 12].hex()} vs '
              f'{expected[max(0, i - 6):i + 12].hex()}')
        return
    if announced != len(expected):
        r.bad(f'C08/{tag}/announced-length', f'{announced} != {len(expected)}')
    try:
        T.walk(wire)
    except T.Malformed as e:
        r.bad(f'C08/{tag}/wire-malformed', str(e))
    # ---- the documented encode(wire=, offset=) form: into a caller's (re-used, not zeroed) buffer ------------------------------
    k = salt % 4
    buf = bytearray(b'\xaa' * (k + len(expected) + 2))
    try:
        ret = obj.encode(buf, k)
    except Exception as e:
        r.bad(f'C08/{tag}/encode-into-buffer-raised/{type(e).__name__}', repr(e)[:200])
        return
    if bytes(buf[k:k + len(expected)]) != expected or bytes(buf[:k]) != b'\xaa' * k or bytes(buf[k + len(expected):]) != b'\xaa\xaa':
        i = next((i for i, (a, b) in enumerate(zip(buf[k:], expected)) if a != b), len(expected))
        r.bad(f'C08/{tag}/encode-into-buffer-differs', f'offset {k}: first diff at {i}: {bytes(buf[k + max(0, i - 4):k + i + 8]).hex()} vs '
              f'{expected[max(0, i - 4):i + 8].hex()}')
        return
    # ---- Name fields assigned in the other legal representations (tuple / generator / URI / encoded / mixed) ------------------
    if salt % 3 == 0 and _has_name(desc, vals):
        for rep in range(1, 11):
            try:
                o2 = mk_instance(desc, vals, classes, cls, name_rep=rep)
                n2 = o2.encoded_length() if rep != 8 else len(expected)     # (a generator can be consumed by one pass only)
                w2 = bytes(o2.encode())
            except Exception as e:
                r.bad(f'C08/{tag}/name-representation/encode-raised/{type(e).__name__}/rep{rep}', repr(e)[:200])
                return
            if w2 != expected or n2 != len(expected):
                r.bad(f'C08/{tag}/name-representation/wire-differs/rep{rep}', f'announced {n2}, {w2.hex()[:100]} vs {expected.hex()[:100]}')
                return
    # ---- the application edits a Name value IN PLACE (same list object) and encodes again ------------------------------------
    for fd in desc['fields']:
        v = vals.get(fd['n'])
        if fd['k'] == 'name' and isinstance(v, list) and salt % 2 == 0:
            try:
                o3 = mk_instance(desc, vals, classes, cls)
                first = bytes(o3.encode())
                lst = getattr(o3, fd['n'])
                if not isinstance(lst, list):
                    break
                extra = [8, '6c61746572']
                lst.append(S.comp_bytes(extra))
                vals3 = dict(vals, **{fd['n']: v + [extra]})
                exp3 = enc_model(desc, vals3)
                n3 = o3.encoded_length()
                w3 = bytes(o3.encode())
            except Exception as e:
                r.bad(f'C08/{tag}/name-edited-in-place/raised/{type(e).__name__}', repr(e)[:200])
                return
            if first != expected or w3 != exp3 or n3 != len(exp3):
                r.bad(f'C08/{tag}/name-edited-in-place/wire-differs', f'field {fd["n"]}: announced {n3}, {w3.hex()[:80]} expected {exp3.hex()[:80]}')
                return
            break
    # ---- a map filled entry by entry (through the attribute), starting unassigned or from an assigned empty dict -------------------
    for fd in desc['fields']:
        v = vals.get(fd['n'])
        if fd['k'] == 'map' and isinstance(v, list) and v and salt % 2 == 1:
            for start in ('unassigned', 'empty-dict'):
                try:
                    o4 = mk_instance(desc, dict(vals, **{fd['n']: '__unset__'}), classes, cls)
                    if start == 'empty-dict':
                        setattr(o4, fd['n'], {})
                    for kk, vv in v:
                        getattr(o4, fd['n'])[to_py(fd['key'], kk, classes)] = to_py(fd['val'], vv, classes)
                    w4 = bytes(o4.encode())
                except Exception as e:
                    r.bad(f'C08/{tag}/map-filled-entry-by-entry/raised/{type(e).__name__}/{start}', repr(e)[:200])
                    return
                if w4 != expected:
                    r.bad(f'C08/{tag}/map-filled-entry-by-entry/wire-differs/{start}', f'field {fd["n"]}: {w4.hex()[:80]} expected {expected.hex()[:80]}')
                    return
            break
    want = {fd['n']: norm_json(fd, vals.get(fd['n'])) for fd in desc['fields']}

    def decode_equal(w, what):
        try:
            back = cls.parse(w)
        except Exception as e:
            r.bad(f'C08/{tag}/{what}/parse-raised/{type(e).__name__}', f'{e!r}'[:200] + f' wire={w.hex()[:120]}')
            return None
        try:
            got = norm_model(desc, back)
        except Exception as e:
            r.bad(f'C08/{tag}/{what}/read-back-raised/{type(e).__name__}', f'{e!r}'[:200])
            return None
        if _boolnorm(got) != _boolnorm(want):
            diff = next((k for k in want if _boolnorm(got.get(k)) != _boolnorm(want[k])), '?')
            r.bad(f'C08/{tag}/{what}/decoded-differs', f'field {diff}: {str(got.get(diff))[:150]} != {str(want[diff])[:150]} wire={w.hex()[:100]}')
            return None
        return back
    back = decode_equal(wire, 'roundtrip')
    if back is None:
        return
    if not _has_false_bool(desc, vals) and not _none_over_default(desc, vals):
        try:
            if not (back == obj and obj == back):
                r.bad(f'C08/{tag}/roundtrip/__eq__-false', f'wire={wire.hex()[:120]}')
        except Exception as e:
            r.bad(f'C08/{tag}/roundtrip/__eq__-raised/{type(e).__name__}', repr(e)[:200])
    if not do_insert or len(expected) > 3000:
        return     # gap enumeration is quadratic in the wire size; large values are covered by the round trip above
    # ---- metamorphic: unknown elements at every gap --------------------------------------------------------------
    ann = annotate(desc, vals)
    if sum(1 for _ in gaps(ann)) > 120:
        return     # (hundreds of elements: the insertion sweep is quadratic; such values are covered by the round trip above)
    for path, idx in gaps(ann):
        a2 = _copy_ann(ann)
        tgt = _get_ann(a2, path)
        t_even = _free_type(tgt['types'], False, salt + idx)
        tgt['nodes'].insert(idx, {'typ': t_even, 'val': b'\x01\x02'[:(salt + idx) % 3]})
        w2 = render(a2)
        role = tgt['nodes'][idx + 1]['role'] if idx + 1 < len(tgt['nodes']) else 'end'
        if decode_equal(w2, f'unknown-noncritical@{"before-" + role}') is None:
            return
        # critical unknown: must raise unless some enclosing level ignores critical... only the innermost matters
        a3 = _copy_ann(ann)
        tgt3 = _get_ann(a3, path)
        t_odd = _free_type(tgt3['types'], True, salt + idx)
        tgt3['nodes'].insert(idx, {'typ': t_odd, 'val': b''})
        w3 = render(a3)
        try:
            cls.parse(w3)
            raised = None
        except DecodeError as e:
            raised = e
        except Exception as e:
            r.bad(f'C08/{tag}/unknown-critical/wrong-exception/{type(e).__name__}', repr(e)[:200])
            return
        if tgt3['ic']:
            continue   # the enclosing ModelField asked to ignore critical fields: either outcome is its business
        if raised is None:
            r.bad(f'C08/{tag}/unknown-critical-accepted@before-{role}', f'type {t_odd} inserted; wire={w3.hex()[:120]}')
            return
    # repeated / swapped critical fields (top level and nested)
    for path, _ in gaps(ann):
        lvl = _get_ann(ann, path)
        if lvl['ic']:
            continue
        nodes = lvl['nodes']
        for i, n in enumerate(nodes):
            if n['role'] != 'field' or n['typ'] % 2 == 0:
                continue
            a4 = _copy_ann(ann)
            t4 = _get_ann(a4, path)
            t4['nodes'].insert(i + 1, dict(t4['nodes'][i]))
            if not _raises_decode(cls, render(a4)):
                r.bad(f'C08/{tag}/repeated-critical-accepted', f'type {n["typ"]} twice; wire={render(a4).hex()[:120]}')
                return
            if i + 1 < len(nodes) and nodes[i + 1]['role'] == 'field' and nodes[i + 1]['typ'] % 2 == 1 \
                    and nodes[i + 1]['typ'] != n['typ']:
                a5 = _copy_ann(ann)
                t5 = _get_ann(a5, path)
                t5['nodes'][i], t5['nodes'][i + 1] = t5['nodes'][i + 1], t5['nodes'][i]
                if not _raises_decode(cls, render(a5)):
                    r.bad(f'C08/{tag}/swapped-critical-accepted', f'types {n["typ"]},{nodes[i + 1]["typ"]}; wire={render(a5).hex()[:120]}')
                    return


def _raises_decode(cls, w):
    try:
        cls.parse(w)
        return False
    except DecodeError:
        return True
    except Exception:
        return True   # some other decoding error; not this check's demand


def _exc_class(e, desc, vals):
    acc = set()
    _boundary_classes(desc, vals, acc)
    return 'non-ascii-text' if 'non-ascii' in acc and isinstance(e, (ValueError, struct.error, IndexError)) else 'other'


def _boolnorm(x):
    if isinstance(x, dict):
        return {k: _boolnorm(v) for k, v in x.items()}
    if isinstance(x, list):
        return [_boolnorm(v) for v in x]
    if x is False:
        return None
    return x


def _none_over_default(desc, vals):
    """A field with a declared default explicitly assigned None: omitted on the wire, parses back to the default (documented),
    so TlvModel.__eq__ between the original and the parsed object is legitimately False."""
    for fd in desc['fields']:
        v = vals.get(fd['n'])
        if fd.get('default') is not None and v is None:
            return True
        if fd['k'] == 'model' and v not in (None, '__unset__') and _none_over_default(fd['m'], v):
            return True
        if fd['k'] == 'rep' and fd['e']['k'] == 'model' and any(_none_over_default(fd['e']['m'], x) for x in v or []):
            return True
        if fd['k'] == 'map' and fd['val']['k'] == 'model' and any(_none_over_default(fd['val']['m'], x[1]) for x in v or []):
            return True
    return False


def _has_false_bool(desc, vals):
    for fd in desc['fields']:
        v = vals.get(fd['n'])
        if fd['k'] == 'bool' and v is False:
            return True
        if fd['k'] == 'model' and v is not None and _has_false_bool(fd['m'], v):
            return True
        if fd['k'] == 'rep' and fd['e']['k'] == 'model' and any(_has_false_bool(fd['e']['m'], x) for x in v or []):
            return True
        if fd['k'] == 'map' and fd['val']['k'] == 'model' and any(_has_false_bool(fd['val']['m'], x[1]) for x in v or []):
            return True
    return False


def _mark_diamond(desc):
    """A field name declared by BOTH bases of a two-base class: the attribute is read through the first base's descriptor (Python's
    MRO) while the later include's field is the one encoded, so an explicit None reads back as None whatever default the encoded
    field has - the decoded model equals the assigned one."""
    inh = desc.get('inherit')
    if not inh or len(inh.get('bases', [])) < 2:
        return
    names = [{f['n'] for f in b['fields']} for b in inh['bases']]
    both = names[0] & names[1]
    for f_ in desc['fields']:
        if f_['n'] in both:
            f_['diamond'] = True


def run_generated(case):
    r = Result()
    desc = case['desc']
    _mark_diamond(desc)
    classes = {}
    try:
        cls = mk_class(desc, classes)
    except Exception as e:
        return r.bad(f'C08/generated/class-definition-raised/{type(e).__name__}', repr(e)[:300])
    check_model(r, 'generated', desc, case['vals'], cls, classes, salt=case.get('salt', 0))
    acc = set()
    _boundary_classes(desc, case['vals'], acc)
    d = _depth(desc)
    structural = d >= 2 or bool(acc & {'rep', 'map'})
    boundary = bool(acc & {'uint-edge', 'non-ascii', 'long-bytes', 'long-text', 'bigtype'})
    shape = _shape(desc)
    r.key = (shape, tuple(sorted(acc))) if structural and boundary else None
    r.classes = ('generated', f'depth{d}') + tuple(sorted(acc)) + (('inherit',) if desc.get('inherit') else ())
    return r


def _shape(desc):
    out = []
    for fd in desc['fields']:
        k = fd['k']
        if k == 'model':
            out.append(('m', _shape(fd['m'])))
        elif k == 'rep':
            out.append(('r', fd['e']['k']))
        elif k == 'map':
            out.append(('p', fd['key']['k'], fd['val']['k']))
        else:
            out.append(k + str(fd.get('fixed') or ''))
    return str(out)


@st.composite
def _generated_case(draw):
    desc = draw(model_desc())
    if draw(st.integers(0, 3)) == 0:
        desc = draw(_with_inheritance(desc))
    vals = draw(model_value(desc))
    return {'desc': desc, 'vals': vals, 'salt': draw(st.integers(0, 20))}


@st.composite
def _with_inheritance(draw, desc):
    """Split desc['fields'] into one or two bases + own fields; expected flattened order stays desc['fields']."""
    fields = desc['fields']
    if len(fields) < 2:
        return desc
    two = len(fields) >= 4 and draw(st.booleans())
    # choose contiguous runs for the bases (IncludeBase inserts the base's fields contiguously)
    n = len(fields)
    a0 = draw(st.integers(0, n - 1))
    a1 = draw(st.integers(a0 + 1, n))
    bases = [{'fields': [dict(f) for f in fields[a0:a1]]}]
    segs = [(a0, a1, 0)]
    if two and a1 < n:
        b0 = draw(st.integers(a1, n - 1))
        b1 = draw(st.integers(b0 + 1, n))
        bases.append({'fields': [dict(f) for f in fields[b0:b1]]})
        segs.append((b0, b1, 1))
    decl = []
    i = 0
    overrides = []
    while i < n:
        seg = next((s for s in segs if s[0] == i), None)
        if seg:
            decl.append({'include': seg[2]})
            # possibly override one simple base field: the base declares a *different* field under the same name
            bf = bases[seg[2]]['fields']
            j = draw(st.integers(0, len(bf) - 1))
            if draw(st.booleans()) and bf[j]['k'] in ('uint', 'bytes', 'text', 'bool'):
                real = dict(fields[seg[0] + j])
                # what the base declares (to be overridden): a bytes field with the same type number
                bf[j] = {'k': 'bytes', 't': real['t'], 'n': real['n']} if real['k'] != 'bytes' else \
                        {'k': 'text', 't': real['t'], 'n': real['n']}
                overrides.append(real)
            i = seg[1]
        else:
            decl.append(dict(fields[i]))
            i += 1
    decl.extend(overrides)     # overriding fields are declared *after* the including (documented)
    if len(bases) == 2 and draw(st.booleans()):
        # diamond-style sharing: both bases declare a field of the same name; the later include replaces it in place
        bf = bases[0]['fields']
        j = draw(st.integers(0, len(bf) - 1))
        real = dict(fields[segs[0][0] + j])
        if real['k'] in ('uint', 'bytes', 'text', 'bool') and not any(o['n'] == real['n'] for o in overrides):
            bf[j] = {'k': 'bytes', 't': real['t'], 'n': real['n']} if real['k'] != 'bytes' else {'k': 'text', 't': real['t'], 'n': real['n']}
            bases[1]['fields'].insert(draw(st.integers(0, len(bases[1]['fields']))), real)
            # (attribute reads resolve through the FIRST base's descriptor - no default -, encoding through the later include:
            # see _mark_diamond)
    return {'fields': fields, 'inherit': {'bases': bases, 'decl': decl}}


# ---- shipped models ----------------------------------------------------------------------------------------------------
SHIPPED_MODULES = ['ndn.app_support.nfd_mgmt', 'ndn.encoding.ndnlp_v2', 'ndn.app_support.light_versec.binary',
                   'ndn.app_support.svs.tlv', 'ndn.app_support.security_v2', 'ndn.encoding.ndn_format_0_3']
SKIP_CLASSES = {'InterestPacketValue', 'InterestPacket', 'DataPacketValue', 'DataPacket', 'CertificateV2Value', 'TlvModel'}


def describe_field(f, seen):
    if isinstance(f, UintField):
        fd = {'k': 'uint', 't': f.type_num, 'fixed': f.fixed_len, 'base': 'int'}
        vb = f.val_base_type
        if vb is not int:
            if issubclass(vb, enum.Flag):
                ms = [m.value for m in vb]
                fd['base'] = 'members'
                fd['members'] = sorted(set(ms + [ms[0] | ms[-1]]))
            else:
                fd['base'] = 'members'
                fd['members'] = [m.value for m in vb]
        return fd
    if isinstance(f, BoolField):
        return {'k': 'bool', 't': f.type_num}
    if isinstance(f, BytesField):
        return {'k': 'text' if f.is_string else 'bytes', 't': f.type_num}
    if isinstance(f, NameField):
        return {'k': 'name', 't': f.type_num}
    if isinstance(f, ModelField):
        return {'k': 'model', 't': f.type_num, 'm': describe_class(f.model_type, seen), 'ic': f.ignore_critical, 'cls': f.model_type}
    if isinstance(f, RepeatedField):
        e = describe_field(f.element_type, seen)
        if e is None:
            return None
        return {'k': 'rep', 't': e['t'], 'e': e}
    if isinstance(f, MapField):
        kf, vf = describe_field(f.key_type, seen), describe_field(f.value_type, seen)
        if kf is None or vf is None:
            return None
        return {'k': 'map', 't': kf['t'], 'key': kf, 'val': vf}
    return None


def describe_class(cls, seen=None):
    fields = []
    for f in cls._encoded_fields:
        if f.type_num == -1:
            continue     # ProcedureArgument / OffsetMarker: not encoded
        fd = describe_field(f, seen)
        if fd is None:
            return None
        fd['n'] = f.name
        fields.append(fd)
    return {'fields': fields, 'cls': cls}


def shipped_models():
    out = {}
    for mn in SHIPPED_MODULES:
        mod = importlib.import_module(mn)
        for name, obj in vars(mod).items():
            if isinstance(obj, type) and issubclass(obj, TlvModel) and obj.__name__ not in SKIP_CLASSES \
                    and obj.__module__ == mn:
                d = describe_class(obj)
                if d is None or not d['fields']:
                    continue
                ts = [fd['t'] for fd in d['fields']]
                if len(set(ts)) != len(ts):
                    continue
                out[f'{mn.split(".")[-1]}.{name}'] = d
    return out


_SHIPPED = None


def _shipped():
    global _SHIPPED
    if _SHIPPED is None:
        _SHIPPED = shipped_models()
    return _SHIPPED


def _strip(d):
    """JSON-able copy of a description (drops class objects)."""
    if isinstance(d, dict):
        return {k: _strip(v) for k, v in d.items() if k != 'cls'}
    if isinstance(d, list):
        return [_strip(x) for x in d]
    return d


def _bind_classes(desc, classes):
    """Tell mk_class to use the library's own classes for a shipped description."""
    if 'cls' in desc:
        classes[id(desc)] = desc['cls']
    for fd in desc['fields']:
        for sub in (fd, fd.get('e') or {}, fd.get('val') or {}):
            if sub.get('k') == 'model':
                _bind_classes(sub['m'], classes)


def run_shipped(case):
    r = Result()
    d = _shipped().get(case['model'])
    if d is None:
        r.discarded = True
        return r
    classes = {}
    _bind_classes(d, classes)
    # MetaInfo has a constructor default (content_type=0): assign every field explicitly instead
    check_model(r, f'shipped/{case["model"]}', d, case['vals'], d['cls'], classes, salt=case.get('salt', 0))
    acc = set()
    _boundary_classes(d, case['vals'], acc)
    r.key = (case['model'], tuple(sorted(acc)))
    r.classes = ('shipped', case['model'])
    return r


@st.composite
def _shipped_case(draw):
    names = sorted(_shipped())
    m = draw(st.sampled_from(names))
    d = _strip(_shipped()[m])
    return {'model': m, 'vals': draw(model_value(d)), 'salt': draw(st.integers(0, 20))}


def _shipped_enum(tier):
    """Every shipped model at least once with all-None, and with one deterministic filled value set."""
    for m in sorted(_shipped()):
        yield {'model': m, 'vals': {}, 'salt': 0}


SUBCHECKS = {
    'shipped-all': SubCheck(run_shipped, enumerate=_shipped_enum, exhaustive={'quick': False, 'thorough': False},
                            note='every shipped model class visited at least once (empty instance)'),
    'shipped': SubCheck(run_shipped, strategy=lambda tier: _shipped_case(), examples={'quick': 1500, 'thorough': 60000}),
    'generated': SubCheck(run_generated, strategy=lambda tier: _generated_case(), examples={'quick': 2500, 'thorough': 120000}),
}
