"""C16 - issued certificates are well-formed, correctly named and verifiable."""
import datetime as dt

from hypothesis import strategies as st

import ndn.app_support.security_v2 as secv2
from ndn.app_support.security_v2 import derive_cert, parse_certificate, self_sign, sign_req
from ndn.encoding import MetaInfo, Signer, make_data, parse_data

from .. import keys as K
from .. import pkt as P
from .. import strats as S
from ..core import Result, SubCheck
from ..refs import tlv as T
from .c01_roundtrip import _exc_sig

PROPERTY_ID = 'C16'
RULE = ('Generated issuing parameters: key names (identity of 0..3 components + KEY + key id, in 3 input representations, optionally '
        'padded so that the whole certificate lands within +-8 bytes of the 253-byte length boundary), issuer id as text or as a '
        'component of any type, subject key from the pool (EC P-256/384/521, RSA-1024/2048, Ed25519), issuing signer in {ECDSA three '
        'curves with pinned nonce (DER lengths vary), RSA, Ed25519, HMAC, synthetic (R reserved, r written)} with a drawn key-locator '
        'name; derive_cert start times naive or UTC-aware in years 1900..9990 biased to 31 Dec 23:59:59 / 1 Jan / 28-29 Feb and '
        'durations 0 s..100 y, also around daylight-saving changes with the process TZ set to a zone that observes them; issuing signers '
        'whose key locator is the root name; self_sign / sign_req under a patched clock; one case in six with a re-entrant signer (signs an audit Data '
        'inside write_signature_value), one in five issues again with the same signer object after its key_locator_name was changed. Oracle: strict decode (one Data TLV, exact lengths), name == '
        'key name + [issuer, version(clock)], Content == public key, ContentType KEY, NotBefore/NotAfter == independently rendered '
        'instants, SignatureType and KeyLocator of the signer, signature verifies (pycryptodome) over the strict signed portion, '
        'parse_certificate / parse_data return the same fields. Non-trivial = signature shorter than reserved, or total size within '
        '+-8 of 253; distinct key = (function, subject type, issuer type, shrink, outer length form).')
ASSUMPTIONS = [
    'start times are naive or time-zone-aware datetimes; the validity period shows the wall-clock fields of the datetime that was passed (no conversion)',
    'the clock is constant during one call (sign_req reads it twice)',
    'pycryptodome is trusted for verification',
]

SUBJECTS = sorted(K.KEYS)


def ref_comp_from_uri(text):
    """Independent reading of one URI component (the issuer id is given in URI form): [<type>=]value with %XX escapes, or a typed
    number seg= / off= / v= / t= / seq=."""
    alt = {'seg': 50, 'off': 52, 'v': 54, 't': 56, 'seq': 58}
    typ = 8
    if '=' in text:
        head, rest = text.split('=', 1)
        if head in alt:
            return T.enc_tlv(alt[head], T.enc_nni(int(rest)))
        if head.isdigit():
            typ, text = int(head), rest
    out = bytearray()
    i = 0
    while i < len(text):
        if text[i] == '%':
            out.append(int(text[i + 1:i + 3], 16))
            i += 3
        else:
            out += text[i].encode()
            i += 1
    return T.enc_tlv(typ, bytes(out))


class _Reentrant(Signer):
    """An issuing signer that writes a signed audit record (another Data packet) each time it is asked for a signature."""

    def __init__(self, inner):
        self.inner = inner
        self.records = []
        self.own_cert = []

    def write_signature_info(self, signature_info):
        if not self.own_cert:
            # first use: it certifies its own audit key (an issuance nested inside the issuance it is used for)
            self.own_cert.append(self_sign([T.enc_tlv(8, b'auditor'), T.enc_tlv(8, b'KEY'), T.enc_tlv(8, b'a1')], b'audit-public-key',
                                           K.SyntheticSigner(72, 69, 200, [T.enc_tlv(8, b'auditor')], 7)))
        self.inner.write_signature_info(signature_info)

    def get_signature_value_size(self):
        return self.inner.get_signature_value_size()

    def write_signature_value(self, wire, contents):
        rec = make_data([T.enc_tlv(8, b'audit'), T.enc_tlv(8, b'%d' % len(self.records))], MetaInfo(), b'issued',
                        signer=K.SyntheticSigner(72, 69, 200, [T.enc_tlv(8, b'auditor')], 7))
        self.records.append(rec)          # (kept as returned: nobody may touch it later)
        return self.inner.write_signature_value(wire, contents)


def fmt(d):
    return f'{d.year:04d}{d.month:02d}{d.day:02d}T{d.hour:02d}{d.minute:02d}{d.second:02d}'.encode()


class _Clock(dt.datetime):
    _now = dt.datetime(2024, 1, 1, tzinfo=dt.timezone.utc)

    @classmethod
    def now(cls, tz=None):
        n = cls._now
        if tz is not None:
            return n.astimezone(tz)
        # naive now() is LOCAL wall-clock time: it follows the time zone of the process
        try:
            return dt.datetime.fromtimestamp(n.timestamp())
        except (OverflowError, OSError, ValueError):
            return n.replace(tzinfo=None)


_DATES = st.one_of(
    st.tuples(st.integers(1900, 9990), st.sampled_from([(12, 31, 23, 59, 59), (1, 1, 0, 0, 0), (2, 28, 23, 59, 59), (3, 1, 0, 0, 0),
                                                       (6, 15, 12, 30, 1)])).map(lambda t: [t[0], *t[1]]),
    st.sampled_from([1904, 1996, 2000, 2024, 2080, 2096, 2400, 9988]).map(lambda y: [y, 2, 29, 12, 0, 0]),
    # around daylight-saving changes of common zones (US, EU, Lord Howe)
    st.sampled_from([[2024, 3, 9, 12, 0, 0], [2024, 3, 10, 1, 30, 0], [2024, 11, 2, 12, 0, 0], [2024, 11, 3, 1, 30, 0],
                     [2024, 3, 30, 12, 0, 0], [2024, 10, 26, 12, 0, 0], [2024, 4, 6, 12, 0, 0], [2024, 10, 5, 12, 0, 0]]),
    st.tuples(st.integers(1900, 9990), st.integers(1, 12), st.integers(1, 28), st.integers(0, 23), st.integers(0, 59),
              st.integers(0, 59)).map(list))


_PUB_FORMS = {}


def _pub_form(key, form):
    """The subject's public key as the caller may hold it: the bits are opaque to the issuing functions - whatever octets are
    given are the certificate's Content.  Forms: DER SubjectPublicKeyInfo (default), the same key with a compressed EC point,
    PEM text, DER with trailing octets, arbitrary octets."""
    pub = key['pub']
    if not form or form == 'der':
        return pub
    ck = (id(key), form)
    if ck in _PUB_FORMS:
        return _PUB_FORMS[ck]
    out = pub
    try:
        if form == 'compressed' and key['kind'] == 'ec':
            from Cryptodome.PublicKey import ECC
            out = ECC.import_key(bytes(pub)).export_key(format='DER', compress=True)
        elif form == 'pem':
            if key['kind'] == 'rsa':
                from Cryptodome.PublicKey import RSA
                out = RSA.import_key(bytes(pub)).export_key(format='PEM')
            else:
                from Cryptodome.PublicKey import ECC
                out = ECC.import_key(bytes(pub)).export_key(format='PEM').encode()
        elif form == 'pkcs1' and key['kind'] == 'rsa':
            from Cryptodome.PublicKey import RSA
            from Cryptodome.Util.asn1 import DerSequence
            k = RSA.import_key(bytes(pub))
            out = DerSequence([k.n, k.e]).encode()
        elif form == 'opaque':
            out = b'\x30\x03\x02\x01\x05 not a key at all \x00\xff'
    except Exception:
        out = pub
    _PUB_FORMS[ck] = bytes(out)
    return _PUB_FORMS[ck]


@st.composite
def _case(draw):
    fn = draw(st.sampled_from(['derive', 'derive', 'derive', 'self', 'req']))
    ident = draw(S.name(0, 3, 10, allow_digest_types=False))
    if draw(st.integers(0, 5)) == 0:
        # an identity that itself ends with  /KEY/<something>  (an archive of keys, say): the key name is still identity/KEY/key-id
        ident = list(ident) + [[8, b'KEY'.hex()], draw(st.sampled_from([[8, '61726368697665'], [8, '01'], [8, b'KEY'.hex()]]))]
    key_id = draw(st.one_of(st.binary(min_size=1, max_size=8).map(bytes.hex), st.just('01')))
    signer = draw(K.signer_spec(['ecdsa', 'ecdsa', 'rsa', 'ed25519', 'hmac', 'synthetic'],
                                kl=S.name(0, 4, 10, allow_digest_types=False)))
    if signer.get('kl') is None:
        signer['kl'] = [[8, '6b']]
    return {'fn': fn, 'ident': ident, 'key_id': key_id, 'rep': draw(st.sampled_from([0, 1, 3, 5])),
            'subject': draw(st.sampled_from(SUBJECTS)), 'signer': signer,
            'pub_form': draw(st.sampled_from(['der', 'der', 'der', 'compressed', 'pem', 'pkcs1', 'opaque'])),
            'issuer': draw(st.one_of(st.sampled_from(['self', 'ndn', 'a.b', 'x-1', 'a%2Fb', '%41%00', '32=k', 'v=7', 'seg=300', '300=x%2F']).map(lambda t: {'text': t}),
                                     S.component(10).map(lambda c: {'comp': c}))),
            'start': draw(_DATES), 'aware': draw(st.booleans()),
            'tz_min': draw(st.sampled_from([0, 0, 0, 540, -480, 330, 765, -720, 840])),
            'second_tz': draw(st.sampled_from([None, None, 0, 540, -300, 60])),
            'dur': draw(st.one_of(st.sampled_from([0, 1, 59, 60, 86399, 86400, 31536000, 100 * 365 * 86400]), st.integers(0, 10 ** 9))),
            'now': draw(_DATES), 'clock_ms': draw(st.integers(0, 2 ** 44)),
            'target_total': draw(st.one_of(st.none(), st.integers(245, 261))),
            'usec': draw(st.sampled_from([0, 0, 0, 1, 400000, 600000, 999999])), 'dur_frac': draw(st.sampled_from([0, 0, 0, 0.5, 0.4, 0.999999])),
            'proc_tz': draw(st.sampled_from([None] * 5 + ['EST5EDT,M3.2.0,M11.1.0', 'CET-1CEST,M3.5.0,M10.5.0/3',
                                                         'LHST-10:30LHDT-11,M10.1.0,M4.1.0', 'UTC0'])),
            'reentrant': draw(st.integers(0, 5)) == 0, 'relocate': draw(st.integers(0, 4)) == 0}


def run_case(case):
    """The process's local time zone (TZ) must not matter: naive datetimes are wall-clock fields, aware ones carry their own offset."""
    import os
    import time
    tz = case.get('proc_tz')
    old = os.environ.get('TZ')
    if tz:
        os.environ['TZ'] = tz
        time.tzset()
    try:
        res = _run_case(case)
    finally:
        if tz:
            if old is None:
                os.environ.pop('TZ', None)
            else:
                os.environ['TZ'] = old
            time.tzset()
    if tz:
        res.classes = tuple(res.classes or ()) + ('process-tz-with-dst' if ',' in tz else 'process-tz-utc',)
    return res


def _run_case(case):
    r = Result()
    spec = case['signer']
    pub = _pub_form(K.KEYS[case['subject']], case.get('pub_form'))
    secv2.timestamp = lambda: case['clock_ms']
    secv2.datetime = _Clock
    try:
        now = dt.datetime(*case['now'], tzinfo=dt.timezone.utc)
    except ValueError:
        r.discarded = True
        return r
    if now.year > 9970:
        now = now.replace(year=now.year - 40)     # the clock + 20 years must stay a representable date
    _Clock._now = now
    pad = 0
    wire = None
    for attempt in range(2):
        ident = list(case['ident'])
        if pad > 0:
            ident = ident + [[8, '70' * pad]]
        key_name_json = ident + [[8, b'KEY'.hex()], [8, case['key_id']]]
        key_name = P.name_in_rep(key_name_json, case['rep'])
        signer = K.make_signer(spec, record=False)
        if case.get('reentrant'):
            signer = _Reentrant(signer)
        try:
            if case['fn'] == 'derive':
                try:
                    tz = None
                    if case['aware']:
                        tz = dt.timezone(dt.timedelta(minutes=case.get('tz_min', 0)))
                    start = dt.datetime(*case['start'], tzinfo=tz)
                    # (sub-second parts: the start may carry microseconds, the duration a fraction; NotAfter is the second in
                    # which start + duration falls)
                    start = start.replace(microsecond=case.get('usec', 0))
                    dur = case['dur'] + case.get('dur_frac', 0)
                    end = start + dt.timedelta(seconds=dur)
                except (ValueError, OverflowError):
                    r.discarded = True
                    return r
                issuer_arg = case['issuer']['text'] if 'text' in case['issuer'] else S.comp_bytes(case['issuer']['comp'])
                issuer_comp = ref_comp_from_uri(case['issuer']['text']) if 'text' in case['issuer'] else issuer_arg
                name, wire = derive_cert(key_name, issuer_arg, pub, signer, start, dur)
            elif case['fn'] == 'self':
                start = dt.datetime(1970, 1, 1)
                try:
                    end = now.replace(year=now.year + 20)
                except ValueError:
                    end = None       # 29 Feb + 20 years is not a date: which instant is "requested" is unspecified
                issuer_comp = T.enc_tlv(8, b'self')
                name, wire = self_sign(key_name, pub, signer)
            else:
                start = now
                end = now + dt.timedelta(days=10)
                issuer_comp = T.enc_tlv(8, b'cert-request')
                name, wire = sign_req(key_name, pub, signer)
        except Exception as e:
            if case['fn'] == 'self' and isinstance(e, ValueError) and (now.month, now.day) == (2, 29):
                return r.bad('C16/self_sign-raised-on-29-feb', f'{e!r} clock={now.isoformat()}')
            return r.bad(f'C16/{case["fn"]}/raised/{_exc_sig(e)}', f'{e!r}')
        wire = bytes(wire)
        if case['target_total'] is None or attempt == 1 or case['target_total'] <= len(wire):
            break
        pad = max(1, case['target_total'] - len(wire) - 2)
    tag = case['fn']
    if case.get('reentrant'):
        for rec in signer.records:
            try:
                d = P.strict_data(bytes(rec))
                if d['sig_value'] != K.SyntheticSigner(72, 69, 200, None, 7).value():
                    r.bad(f'C16/{tag}/reentrant-signer/nested-packet-signature-altered', bytes(rec).hex()[:160])
            except T.Malformed as e:
                r.bad(f'C16/{tag}/reentrant-signer/nested-packet-malformed', f'{e} wire={bytes(rec).hex()[:160]}')
        if not signer.records:
            r.bad('C16/harness/reentrant-signer-not-called', '')
    if case.get('relocate') and spec['kind'] in ('ecdsa', 'rsa', 'ed25519', 'hmac') and not case.get('reentrant'):
        # the SAME signer object is re-configured (key_locator_name is its public attribute) and issues again
        new_kl = [T.enc_tlv(8, b'moved'), T.enc_tlv(8, b'KEY'), T.enc_tlv(8, b'\x02')]
        signer.key_locator_name = new_kl
        try:
            if case['fn'] == 'derive':
                _n3, w3 = derive_cert(key_name, issuer_arg, pub, signer, start, case['dur'])
            elif case['fn'] == 'self':
                _n3, w3 = self_sign(key_name, pub, signer)
            else:
                _n3, w3 = sign_req(key_name, pub, signer)
            c3 = P.strict_cert(bytes(w3))
            kl3 = None if not c3['sig_info'] or c3['sig_info']['key_locator'] is None else c3['sig_info']['key_locator']['name']
            if kl3 != new_kl:
                r.bad(f'C16/{tag}/key-locator/after-signer-reconfigured', f'{kl3} != {new_kl}')
        except T.Malformed as e:
            r.bad(f'C16/{tag}/wire-malformed/second-issuance-same-signer', str(e))
        except Exception as e:
            r.bad(f'C16/{tag}/raised/second-issuance-same-signer/{_exc_sig(e)}', repr(e)[:200])
    if case['fn'] == 'derive' and case['aware'] and case.get('second_tz') is not None:
        # the same instant, expressed in another UTC offset, issued right afterwards in the same process:
        # each certificate shows the wall-clock fields of the datetime IT was given
        try:
            start2 = start.astimezone(dt.timezone(dt.timedelta(minutes=case['second_tz'])))
            end2 = start2 + dt.timedelta(seconds=case['dur'])
            _n2, w2 = derive_cert(key_name, issuer_arg, pub, K.make_signer(spec, record=False), start2, case['dur'])
            c2 = P.strict_cert(bytes(w2))
            if c2['validity'] != (fmt(start2), fmt(end2)):
                r.bad('C16/derive/validity-period/second-issuance-other-offset', f'{c2["validity"]} != {(fmt(start2), fmt(end2))} '
                      f'(first issuance {fmt(start)} at offset {case.get("tz_min", 0)} min)')
        except (ValueError, OverflowError):
            pass
        except T.Malformed as e:
            r.bad('C16/derive/wire-malformed/second-issuance', str(e))
    try:
        c = P.strict_cert(wire)
    except T.Malformed as e:
        return r.bad(f'C16/{tag}/wire-malformed', f'{e} wire={wire.hex()[:160]}')
    want_name = S.name_comps(key_name_json) + [issuer_comp, T.enc_tlv(54, T.enc_nni(case['clock_ms']))]
    if c['name'] != want_name:
        r.bad(f'C16/{tag}/name', f'{[x.hex() for x in c["name"]]} != {[x.hex() for x in want_name]}')
    if [bytes(x) for x in name] != want_name:
        r.bad(f'C16/{tag}/returned-name', '')
    if c['content'] != pub:
        r.bad(f'C16/{tag}/content', 'Content is not the given public key')
    if not c['meta'] or c['meta']['content_type'] != 2:
        r.bad(f'C16/{tag}/content-type', str(c['meta']))
    if c['validity'] is None:
        r.bad(f'C16/{tag}/no-validity-period', '')
    elif end is not None:
        want_v = (fmt(start), fmt(end))
        if c['validity'] != want_v:
            r.bad(f'C16/{tag}/validity-period', f'{c["validity"]} != {want_v}')
    si = c['sig_info']
    if si is None or si['signature_type'] != K.SIG_TYPE[spec['kind']]:
        r.bad(f'C16/{tag}/signature-type', str(si))
    else:
        kl = None if si['key_locator'] is None else si['key_locator']['name']
        if kl != S.name_comps(spec['kl']):
            r.bad(f'C16/{tag}/key-locator', f'{kl}')
    sig = c['sig_value']
    if sig is None or c['signed'] is None:
        r.bad(f'C16/{tag}/no-signature', '')
        return r
    if not K.ref_verify(spec, c['signed'], sig):
        r.bad(f'C16/{tag}/signature-invalid/{spec["kind"]}', f'len={len(sig)} reserved={P.reserved_size(spec)} wire-len={len(wire)}')
    # the library's parsers return the same
    for pname, parser in (('parse_certificate', parse_certificate), ('parse_data', parse_data)):
        try:
            if pname == 'parse_certificate':
                pc = parser(wire)
                got = ([bytes(x) for x in pc.name], bytes(pc.content), pc.meta_info.content_type, bytes(pc.signature_value),
                       (bytes(pc.signature_info.validity_period.not_before), bytes(pc.signature_info.validity_period.not_after)),
                       pc.signature_info.signature_type, [bytes(x) for x in pc.signature_info.key_locator.name])
                want = (c['name'], c['content'], 2, sig, c['validity'], si['signature_type'] if si else None,
                        si['key_locator']['name'] if si and si['key_locator'] else None)
            else:
                n2, mi, content, sp = parser(wire)
                got = ([bytes(x) for x in n2], bytes(content), mi.content_type, bytes(sp.signature_value_buf),
                       b''.join(bytes(x) for x in sp.signature_covered_part))
                want = (c['name'], c['content'], 2, sig, c['signed'])
        except Exception as e:
            r.bad(f'C16/{tag}/{pname}-raised/{type(e).__name__}', repr(e)[:200])
            continue
        if got != want:
            r.bad(f'C16/{tag}/{pname}-differs', '')
        # what a parser returns belongs to the caller: editing it in place must not change what the next parse returns
        try:
            if pname == 'parse_certificate':
                del pc.name[-2:]
                pc.content = b'edited'
                pc.signature_info.key_locator.name = [b'\x08\x01e']
                again = parser(wire)
                got2 = ([bytes(x) for x in again.name], bytes(again.content), [bytes(x) for x in again.signature_info.key_locator.name])
                if got2 != (c['name'], c['content'], si['key_locator']['name'] if si and si['key_locator'] else None):
                    r.bad(f'C16/{tag}/{pname}-second-parse-sees-callers-edits', '')
            else:
                n2.append(b'\x08\x01e')
                mi.content_type = 77
                n3, mi3, _c3, _s3 = parser(wire)
                if [bytes(x) for x in n3] != c['name'] or mi3.content_type != 2:
                    r.bad(f'C16/{tag}/{pname}-second-parse-sees-callers-edits', '')
        except Exception as e:
            r.bad(f'C16/{tag}/{pname}-second-parse-raised/{type(e).__name__}', repr(e)[:200])
    # the returned name belongs to the caller: edited in place here, which must not show in any later issuance
    try:
        for comp_ in name:
            if isinstance(comp_, bytearray) and len(comp_) > 2:
                comp_[-1] ^= 0x01
    except Exception:
        pass
    shrink = P.reserved_size(spec) - len(sig)
    outer = T.num_size(len(wire) - 1 - T.num_size(T.single(wire)[3] - T.single(wire)[2]))
    near = abs(len(wire) - 253) <= 8
    r.key = (tag, K.KEYS[case['subject']]['kind'], spec['kind'], shrink, outer, near) if (shrink > 0 or near) else None
    r.classes = (tag, f'subject:{K.KEYS[case["subject"]]["kind"]}', f'issuer:{spec["kind"]}', f'shrink:{min(shrink, 4)}',
                 'near-253' if near else 'far') + (('reentrant-signer',) if case.get('reentrant') else ()) + \
        (('signer-reconfigured',) if case.get('relocate') else ())
    return r


def _grid(tier):
    """(R, r) grid around the 253 boundary for derive_cert with the synthetic signer."""
    Rs = [8, 72] if tier == 'quick' else [0, 1, 2, 8, 70, 71, 72, 104, 140, 252]
    for R in Rs:
        for rr in sorted({R, max(0, R - 1), max(0, R - 2), max(0, R - 4), 0}):
            for total in (range(249, 259) if tier == 'quick' else range(240, 266)):
                yield {'fn': 'derive', 'ident': [[8, '61']], 'key_id': '01', 'rep': 0, 'subject': 'ed25519-0',
                       'signer': {'kind': 'synthetic', 'R': R, 'r': rr, 'kl': [[8, '6b']], 'fill': 2},
                       'issuer': {'text': 'ndn'}, 'start': [2024, 1, 1, 0, 0, 0], 'aware': False, 'dur': 3600,
                       'now': [2024, 1, 1, 0, 0, 0], 'clock_ms': 1, 'target_total': total}


# ---- issuance from another key through the command line front end (pyndnsec sign-cert) -------------------------------------
_CLI = {}


def _cli_world():
    """One PIB with a CA identity, built once per process (in a scratch directory that is removed at exit)."""
    if _CLI:
        return _CLI
    import atexit
    import os
    import shutil
    import tempfile
    from ndn.security import KeychainSqlite3, TpmFile
    d = tempfile.mkdtemp(prefix='c16-cli-')
    atexit.register(shutil.rmtree, d, ignore_errors=True)
    KeychainSqlite3.initialize(os.path.join(d, 'pib.db'), 'tpm-file', os.path.join(d, 'ndnsec-key-file'))
    kc = KeychainSqlite3(os.path.join(d, 'pib.db'), TpmFile(os.path.join(d, 'ndnsec-key-file')))
    ca = kc.touch_identity('/c16/ca')
    key = ca.default_key()
    _CLI.update(dir=d, ca_pub=bytes(key.key_bits), ca_cert=[bytes(c) for c in key.default_cert().name],
                ca_key=[bytes(c) for c in key.name])
    kc.shutdown()
    return _CLI


def run_cli(case):
    import argparse
    import base64
    import contextlib
    import io
    import os
    from Cryptodome.Hash import SHA256
    from Cryptodome.PublicKey import ECC
    from Cryptodome.Signature import DSS
    import ndn.bin.sec.cmd_sign_cert as cmd
    r = Result()
    wld = _cli_world()
    _Clock._now = dt.datetime(*case['now'], tzinfo=dt.timezone.utc)
    secv2.timestamp = lambda: case['clock_ms']
    old_dt = cmd.datetime
    cmd.datetime = _Clock
    subject = K.KEYS[case['subject']]
    key_name = [T.enc_tlv(8, b'c16'), T.enc_tlv(8, b'user'), T.enc_tlv(8, b'KEY'), T.enc_tlv(8, bytes.fromhex(case['key_id']))]
    try:
        _n, req = sign_req(key_name, subject['pub'], K.SyntheticSigner(72, 70, 200, key_name, 3))
        reqfile = os.path.join(wld['dir'], 'req.txt')
        with open(reqfile, 'w') as f:
            f.write(base64.standard_b64encode(bytes(req)).decode())
        target = {'identity': '/c16/ca', 'key': None, 'cert': None}[case['by']] or \
            '/' + '/'.join(_uri(c) for c in (wld['ca_key'] if case['by'] == 'key' else wld['ca_cert']))
        args = argparse.Namespace(tpm='tpm-file', tpm_path=None, path=wld['dir'], not_before=case['s'], not_after=case['e'],
                                  issuer_id=case['issuer'], key_locator=target, file=reqfile)
        out = io.StringIO()
        with contextlib.redirect_stdout(out):
            ret = cmd.execute(args)
    except SystemExit as e:
        return r.bad('C16/cli/harness/exit', f'{e} {out.getvalue()[:200]}')
    except Exception as e:
        return r.bad(f'C16/cli/raised/{type(e).__name__}', repr(e)[:300])
    finally:
        cmd.datetime = old_dt
    if ret:
        return r.bad(f'C16/cli/refused/{ret}', out.getvalue()[:200])
    try:
        wire = base64.standard_b64decode(out.getvalue())
        c = P.strict_cert(wire)
    except Exception as e:
        return r.bad('C16/cli/output-malformed', f'{e!r} {out.getvalue()[:120]}')
    tag = 'cli'
    now = _Clock._now
    start = dt.datetime.strptime(case['s'], '%Y%m%dT%H%M%S') if case['s'] else now
    end = dt.datetime.strptime(case['e'], '%Y%m%dT%H%M%S') if case['e'] else start + dt.timedelta(days=365)
    vp = c['validity']
    if vp != (fmt(start), fmt(end)):
        r.bad(f'C16/{tag}/validity-period/{"given" if case["s"] else "default"}-start/{"given" if case["e"] else "default"}-end',
              f'{vp} expected {fmt(start)}..{fmt(end)} (-s {case["s"]} -e {case["e"]}, now {fmt(now)})')
    want_name = key_name + [ref_comp_from_uri(case['issuer']), T.enc_tlv(54, T.enc_nni(case['clock_ms']))]
    if c['name'] != want_name:
        r.bad(f'C16/{tag}/name', f'{[x.hex() for x in c["name"]]} != {[x.hex() for x in want_name]}')
    if c['content'] != subject['pub']:
        r.bad(f'C16/{tag}/content', '')
    if not c['meta'] or c['meta']['content_type'] != 2:
        r.bad(f'C16/{tag}/content-type', str(c['meta']))
    kl = c['sig_info']['key_locator']['name'] if c['sig_info'] and c['sig_info']['key_locator'] else None
    if kl != wld['ca_cert']:
        r.bad(f'C16/{tag}/key-locator', f'{kl}')
    try:
        DSS.new(ECC.import_key(wld['ca_pub']), 'fips-186-3', 'der').verify(SHA256.new(c['signed']), c['sig_value'])
    except ValueError:
        r.bad(f'C16/{tag}/signature-does-not-verify', '')
    r.key = (case['s'] is None, case['e'] is None, case['by'], case['issuer'])
    r.classes = ('cli', 'default-start' if case['s'] is None else 'given-start', 'default-end' if case['e'] is None else 'given-end')
    return r


def _uri(comp):
    from ndn.encoding import Component
    return Component.to_str(comp)


def _cli_case():
    stamp = _DATES.map(lambda d: '%04d%02d%02dT%02d%02d%02d' % tuple(d))
    return st.fixed_dictionaries({
        's': st.one_of(st.none(), stamp, stamp), 'e': st.one_of(st.none(), st.none(), stamp),
        'issuer': st.sampled_from(['NA', 'ca', 'x-1', '32=k', 'a%2Fb']), 'by': st.sampled_from(['identity', 'key', 'cert']),
        'subject': st.sampled_from(SUBJECTS), 'key_id': st.sampled_from(['01', '6b31', 'ff00']),
        'now': _DATES.filter(lambda d: d[0] < 9900), 'clock_ms': st.integers(0, 2 ** 44)})


SUBCHECKS = {
    'cli-sign-cert': SubCheck(run_cli, strategy=lambda tier: _cli_case(), examples={'quick': 120, 'thorough': 3000},
                              note='issuance through the pyndnsec sign-cert front end: -s / -e given or defaulted'),
    'grid': SubCheck(run_case, enumerate=_grid, exhaustive={'quick': True, 'thorough': True},
                     note='synthetic issuing signer (R reserved, r written) x total certificate size around 253'),
    'certs': SubCheck(run_case, strategy=lambda tier: _case(), examples={'quick': 2500, 'thorough': 80000}),
}
