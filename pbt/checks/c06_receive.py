"""C06 - receive path: exact stream framing, and no failure on any delivered bytes."""
import asyncio

from hypothesis import strategies as st

from ndn.transport.stream_face import StreamFace
from ndn.transport.udp_face import UdpFace

from .. import mut as M
from .. import pkt as P
from ..core import Result, SubCheck
from ..refs import tlv as T
from ..sim import net
from ..linebudget import BudgetExceeded, LineBudget
from ..sim.appsim import AppSim, exc_site
from ..sim.vloop import VLoop
from .c03_pit import _outcome_label, _verdict

PROPERTY_ID = 'C06'
RULE = ('(a) framing: sequences of 0..6 TLV packets (types in 1/3/5-byte form, lengths in {0,1,252,253,65535,65536,<=70000}) fed to a '
        'concrete StreamFace through a real asyncio.StreamReader on the virtual loop (type / length numbers in their shortest or in a wider '
        'form), cut into chunks at drawn positions, plus EVERY '
        'single cut position and every (c, c+1) pair of streams <= 600 B, optionally ending in a truncated packet then EOF, the EOF fed either after the loop ran or in the SAME loop turn as the last '
        'bytes; oracle: '
        'delivered == packets, once, in order, byte-exact, right type; run() returns after EOF, nothing partial delivered. '
        '(b) robustness: random bytes and byte/TLV-structural mutations of valid Interests, Data, Nacks, tokened / header-laden / '
        'fragment-less / fragmented LpPackets and unknown outer types, delivered to appv2, legacy app (as a stream face frames them, '
        'and raw) and to the UdpFace protocol object, in states with 0..3 pending Interests and 0..3 handlers under /keep, handed over as bytes / memoryview / bytearray / writable '
        'memoryview, a quarter of the cases with the ndn loggers at DEBUG; oracle: '
        'reception returns normally, no unhandled loop error, every /keep Interest and handler still works afterwards. '
        'Non-trivial (a) = a cut inside a type/length number; (b) = outer TL self-consistent or a structural mutation. '
        'Distinct key = (sub-check, front-end, input family, deepest stage / cut class).')
ASSUMPTIONS = [
    'declared lengths stay below 2^17 (multi-GB declared lengths are a memory question outside the stated quantifier)',
    'inputs that contain the bystander name component are discarded and counted (they may legitimately address /keep state)',
]


# =============================== (a) framing =====================================================================
class _TestStreamFace(StreamFace):
    async def open(self):
        self.running = True

    def isLocalFace(self):
        return True


def run_two_faces(case):
    """Two StreamFace instances in one event loop, each fed its own stream, chunks interleaved: each face must deliver
    exactly its own packets (no state may be shared between face instances)."""
    r = Result()
    streams = []
    for pk in (case['a'], case['b']):
        pkts = [_pkt_bytes(p) for p in pk]
        streams.append(pkts)
    vl = VLoop()
    try:
        faces, gots, tasks = [], [[], []], []
        for idx in range(2):
            face = _TestStreamFace()

            async def cb(typ, buf, idx=idx):
                gots[idx].append(bytes(buf))
            face.callback = cb
            faces.append(face)

        class _W:
            def close(self):
                pass

        async def setup():
            for face in faces:
                face.reader = asyncio.StreamReader()
                face.writer = _W()
                await face.open()
                tasks.append(asyncio.get_running_loop().create_task(face.run()))
        vl.run(setup())
        vl.settle()
        data = [b''.join(p) for p in streams]
        pos = [0, 0]
        for which, n in case['schedule']:
            which %= 2
            if pos[which] >= len(data[which]):
                which = 1 - which
            if pos[which] >= len(data[which]):
                break
            chunk = data[which][pos[which]:pos[which] + max(1, n)]
            pos[which] += len(chunk)
            vl.call(faces[which].reader.feed_data, chunk)
            vl.settle()
        for which in range(2):
            if pos[which] < len(data[which]):
                vl.call(faces[which].reader.feed_data, data[which][pos[which]:])
                vl.settle()
        for face in faces:
            vl.call(face.reader.feed_eof)
        vl.advance(0.01)
        for idx in range(2):
            if gots[idx] != streams[idx]:
                r.bad('C06/framing/two-faces-interfere', f'face {idx}: delivered {[len(x) for x in gots[idx]]} packets of sizes, '
                      f'expected {[len(x) for x in streams[idx]]}; schedule={case["schedule"][:10]}')
                break
        errs = vl.collect_errors()
        if errs and not r.violations:
            r.bad(f'C06/framing/two-faces/unhandled-loop-error/{errs[0]["type"]}', str(errs[:2]))
    finally:
        vl.close()
    switches = sum(1 for x, y in zip(case['schedule'], case['schedule'][1:]) if x[0] % 2 != y[0] % 2)
    r.key = ('two-faces', len(case['a']), len(case['b']), min(switches, 6)) if switches >= 2 else None
    r.classes = ('two-faces',)
    return r


def _num(v, widen):
    """VAR-NUMBER of v in its shortest form, or `widen` forms wider (a sender may write 28 as FD 00 1C: the face hands over the
    bytes it received, whatever their form)"""
    forms = [f for f in (1, 3, 5, 9) if f >= len(T.enc_num(v))]
    size = forms[min(widen, len(forms) - 1)]
    if size == 1:
        return bytes([v])
    return bytes([{3: 0xFD, 5: 0xFE, 9: 0xFF}[size]]) + v.to_bytes(size - 1, 'big')


def _pkt_bytes(p):
    t, n, f = p[:3]
    w = p[3] if len(p) > 3 else 0
    return _num(t, w & 3) + _num(n, (w >> 2) & 3) + bytes((f + i) & 0xFF for i in range(n))


def run_framing(case):
    r = Result()
    # burst: many small packets (more than any plausible bound on packets in flight) that become readable at once
    pkts = [_pkt_bytes(p) for p in case['pkts']] + [_pkt_bytes([6 if k % 3 else 5, 2 + k % 5, k & 0xFF]) for k in range(case.get('burst', 0))]
    stream = b''.join(pkts)
    tail = bytes.fromhex(case.get('tail', ''))
    full = stream + tail
    cuts = sorted({c % (len(full) + 1) for c in case['cuts']} - {0, len(full)}) if full else []
    vl = VLoop()
    try:
        got = []
        face = _TestStreamFace()

        async def cb(typ, buf):
            got.append((typ, bytes(buf)))
        face.callback = cb

        class _W:
            def close(self):
                pass
        holder = {}

        async def setup():
            face.reader = asyncio.StreamReader()
            face.writer = _W()
            await face.open()
            holder['task'] = asyncio.get_running_loop().create_task(face.run())
        vl.run(setup())
        vl.settle()
        pos = 0
        eof_now = bool(case.get('eof_now'))     # the peer closes at once: last bytes and EOF become visible in the same loop turn
        points = cuts + [len(full)]
        for c in points:
            if c > pos:
                chunk = full[pos:c]
                if eof_now and c == len(full):
                    def last(chunk=chunk):
                        face.reader.feed_data(chunk)
                        face.reader.feed_eof()
                    vl.call(last)
                else:
                    vl.call(face.reader.feed_data, chunk)
                vl.settle()
                pos = c
        if case.get('mid_check', True) and not eof_now:
            # before EOF: everything complete so far has been delivered, nothing else
            if [g[1] for g in got] != pkts:
                r.bad('C06/framing/delivered-before-eof', f'{len(got)} delivered, expected {len(pkts)}; cuts={cuts[:8]}')
        if not (eof_now and full):
            vl.call(face.reader.feed_eof)
        vl.settle()
        vl.advance(0.01)
        task = holder['task']
        if not task.done():
            r.bad('C06/framing/run-does-not-return-after-eof', f'cuts={cuts[:8]} tail={tail.hex()}')
        elif task.exception() is not None:
            r.bad(f'C06/framing/run-raised/{type(task.exception()).__name__}', repr(task.exception()))
        if face.running:
            r.bad('C06/framing/still-running-after-eof', '')
        want = [(T.read_num(p, 0, len(p))[0], p) for p in pkts]
        if got != want:
            kind = 'partial-delivered' if len(got) > len(want) else 'lost' if len(got) < len(want) else 'altered'
            r.bad(f'C06/framing/{kind}', f'got {[(t, len(b)) for t, b in got][:8]} want {[(t, len(b)) for t, b in want][:8]} cuts={cuts[:8]}')
        if case.get('reopen') is not None and not r.violations:
            # the SAME face object is opened again (the application reconnects after the stream ended - possibly in the middle of a
            # packet): the new connection starts on a packet boundary, nothing of the old stream belongs to it
            got.clear()
            vl.run(setup())
            vl.settle()
            second = (pkts[:3] if pkts and sum(len(p) for p in pkts[:3]) < 5000 else []) or [b'\x05\x03\x07\x01\x00', b'\x06\x00']
            data = b''.join(second)
            cut = case['reopen'] % (len(data) + 1)
            for chunk in (data[:cut], data[cut:]):
                if chunk:
                    vl.call(face.reader.feed_data, chunk)
                    vl.settle()
            vl.call(face.reader.feed_eof)
            vl.settle()
            vl.advance(0.01)
            want2 = [(T.read_num(p, 0, len(p))[0], p) for p in second]
            t2 = holder['task']
            if t2.done() and t2.exception() is not None:
                r.bad(f'C06/framing/reopened/run-raised/{type(t2.exception()).__name__}', repr(t2.exception()))
            elif got != want2:
                r.bad('C06/framing/reopened/wrong-packets', f'second connection of the same face object: got {[(t, b.hex()[:24]) for t, b in got][:6]} '
                      f'want {[(t, b.hex()[:24]) for t, b in want2][:6]}; first stream ended with tail={tail.hex()}')
        errs = vl.collect_errors()
        if errs:
            r.bad(f'C06/framing/unhandled-loop-error/{errs[0]["type"]}', str(errs[:2]))
    finally:
        vl.close()
    # classification: a cut strictly inside some T or L number
    inside = False
    off = 0
    spans = []
    for p in pkts:
        t, a, _ = T.read_num(p, 0, len(p))
        n, b, _ = T.read_num(p, a, len(p))
        spans.append((off, off + b))
        off += len(p)
    for c in cuts:
        if any(s < c < e for s, e in spans):
            inside = True
    r.key = ('framing', len(pkts), tuple(sorted({(e - s) for s, e in spans})), bool(tail), min(len(cuts), 5)) if inside else None
    r.classes = ('framing', 'cut-in-TL' if inside else 'no-cut-in-TL', f'pkts:{len(pkts)}', 'tail' if tail else 'clean-eof') + (('eof-same-turn',) if case.get('eof_now') else ()) + \
        (('non-minimal-TL',) if any(len(p) > 3 and p[3] for p in case['pkts']) else ()) + \
        (('burst>256',) if case.get('burst') else ())
    return r


_PKT = st.tuples(st.sampled_from([5, 6, 100, 252, 253, 800, 65535, 65536, 0xFFFFFFFF]),
                 st.one_of(st.sampled_from([0, 1, 2, 252, 253, 254]), st.integers(0, 40), st.integers(0, 300),
                           st.sampled_from([65535, 65536, 70000])),
                 st.integers(0, 255), st.sampled_from([0, 0, 0, 1, 4, 5, 8, 2, 15])).map(list)


@st.composite
def _framing_case(draw):
    pkts = draw(st.lists(_PKT, min_size=0, max_size=6))
    big = sum(1 for p in pkts if p[1] > 1000)
    if big > 1:
        pkts = [p if p[1] <= 1000 else [p[0], 253] + p[2:] for p in pkts[:-1]] + pkts[-1:]
    tail = b''
    if draw(st.integers(0, 2)) == 0:
        t = draw(_PKT)
        whole = T.enc_num(t[0]) + T.enc_num(max(1, t[1])) + b'\x07' * max(1, min(t[1], 40))
        tail = whole[:draw(st.integers(1, min(len(whole) - 1, 12)))]
    cuts = draw(st.lists(st.integers(0, 1 << 18), max_size=12))
    # bias: cuts right at the start of packets (+0..+5 bytes => inside T/L numbers)
    off = 0
    for p in pkts:
        if draw(st.booleans()):
            cuts.append(off + draw(st.integers(1, 5)))
        off += len(_pkt_bytes(p))
    burst = draw(st.sampled_from([0] * 9 + [257, 300, 520, 1100, 2100]))
    return {'pkts': pkts, 'tail': tail.hex(), 'cuts': cuts, 'eof_now': draw(st.integers(0, 3)) == 0, 'burst': burst,
            'reopen': draw(st.one_of(st.none(), st.none(), st.integers(0, 40)))}


def _framing_enum(tier):
    """Every single cut position, and every (c, c+1) pair, of fixed streams <= 600 B."""
    streams = [
        {'pkts': [[5, 3, 1], [253, 0, 2], [6, 253, 3], [65536, 2, 4], [100, 1, 5]], 'tail': ''},
        {'pkts': [[6, 0, 1], [0xFFFFFFFF, 1, 2]], 'tail': 'fd0320'},
        {'pkts': [[100, 252, 9]], 'tail': '05fd01'},
    ]
    if tier == 'thorough':
        streams.append({'pkts': [[800, 254, 1], [5, 40, 2], [65535, 7, 3], [6, 200, 4]], 'tail': '0605aabb'})
    for burst in (257, 400, 1000, 4200):
        yield {'pkts': [], 'tail': '', 'cuts': [], 'burst': burst}
        yield {'pkts': [[5, 3, 1]], 'tail': '05fd01', 'cuts': [4096], 'burst': burst, 'eof_now': True}
    for s in streams:
        n = sum(len(T.enc_num(t)) + len(T.enc_num(ln)) + ln for t, ln, _ in s['pkts']) + len(s['tail']) // 2
        yield dict(s, cuts=[])
        yield dict(s, cuts=[], eof_now=True)
        yield dict(s, cuts=[], reopen=0)
        yield dict(s, cuts=[3], reopen=2)
        for c in range(1, n):
            yield dict(s, cuts=[c])
            yield dict(s, cuts=[c, c + 1])
            yield dict(s, cuts=[c], eof_now=True)


# =============================== (b) robustness ==================================================================
KEEP = net.comp('keep')


def _seed_packets():
    """Valid packets of every kind, none of them under /keep."""
    n1 = [net.comp('x'), net.comp('y')]
    n2 = [net.comp('x'), T.enc_tlv(32, b'k'), T.enc_tlv(50, b'\x01')]
    interest = net.interest_wire(n1, can_be_prefix=True, must_be_fresh=True, nonce=77, lifetime=4000)
    pinterest = net.interest_wire(n1, nonce=78, lifetime=100, app_param=b'ap', sig_info=T.enc_tlv(0x1b, b'\x00'))
    data = net.data_wire(n1, content=b'hello', freshness=1000, final_block=T.enc_tlv(50, b'\x02'))
    data2 = net.data_wire(n2, content=b'', sig=None)
    return {
        'interest': interest, 'param-interest': pinterest, 'data': data, 'unsigned-data': data2,
        # signature elements in unusual combinations (digest recomputed, so they get past the parameters-digest check)
        'sig-interest-no-sig-value': net.interest_wire(n1, nonce=81, app_param=b'ap', sig_info=T.enc_tlv(0x1b, b'\x00'), omit_sig_value=True),
        'sig-interest-no-params': net.interest_wire(n1, nonce=82, sig_info=T.enc_tlv(0x1b, b'\x00')),
        'sig-interest-no-params-no-value': net.interest_wire(n1, nonce=83, sig_info=T.enc_tlv(0x1b, b'\x00'), omit_sig_value=True),
        'sig-interest-ecdsa-type-no-value': net.interest_wire(n1, nonce=84, app_param=b'', sig_info=T.enc_tlv(0x1b, b'\x03'), omit_sig_value=True),
        'nack': net.lp_wrap(interest, nack_reason=150),
        'nack-noreason': net.lp_wrap(interest, nack=True),
        'lp-data-token': net.lp_wrap(data, pit_token=b'\x01\x02\x03\x04'),
        'lp-interest-headers': net.lp_wrap(interest, pit_token=b'tok', extra=[(0x032C, b'\x01'), (0x0340, b'\x01'), (0x03E8, b'zz')]),
        'lp-no-fragment': net.lp_wrap(None, pit_token=b'\x09'),
        'lp-empty': net.lp_wrap(None),
        'lp-nack-no-fragment': net.lp_wrap(None, nack_reason=50),
        'lp-fragmented': net.lp_wrap(data[:20], frag_index=0, frag_count=2),
        'data-no-content': net.data_wire(n1, content=None),
        'lp-data-no-content': net.lp_wrap(net.data_wire(n1, content=None), pit_token=b'\x07'),
        'lp-fragment-garbage': net.lp_wrap(b'\x99\x01\x00'),
        'lp-fragment-empty': net.lp_wrap(b''),
        'unknown-type': T.enc_tlv(0x99, b'abc'),
        'name-only': T.enc_tlv(7, b''.join(n1)),
        # legal but unusual magnitudes: a typed-number component of 2000 octets (packets may be up to 8800 octets), 40 components
        'param-interest-long-number': net.interest_wire([net.comp('x'), T.enc_tlv(50, b'\x01' * 2000)], nonce=79, app_param=b'ap'),
        'data-long-number': net.data_wire([net.comp('x'), T.enc_tlv(54, b'\x02' * 1900)], content=b'v'),
        'interest-many-components': net.interest_wire([net.comp('c%d' % i) for i in range(40)], nonce=80),
        'empty-interest': T.enc_tlv(5, b''),
        'empty-data': T.enc_tlv(6, b''),
    }


SEEDS = _seed_packets()


def _input_spec():
    raw = st.fixed_dictionaries({'fam': st.just('random'), 'hex': st.binary(min_size=0, max_size=200).map(bytes.hex)})
    raw_framed = st.fixed_dictionaries({'fam': st.just('random-framed'), 'typ': st.sampled_from([5, 6, 100, 0x99, 7, 253]),
                                        'hex': st.binary(min_size=0, max_size=120).map(bytes.hex)})
    seed = st.fixed_dictionaries({'fam': st.just('seed'), 'seed': st.sampled_from(sorted(SEEDS))})
    mutated = st.fixed_dictionaries({'fam': st.just('mutated'), 'seed': st.sampled_from(sorted(SEEDS)),
                                     'muts': st.lists(M.mutation_spec(), min_size=1, max_size=3)})
    wide = st.fixed_dictionaries({'fam': st.just('mutated'), 'seed': st.sampled_from(sorted(SEEDS)),
                                  'muts': st.lists(M.mutation_spec(['num-wide']), min_size=1, max_size=1)})
    near = st.fixed_dictionaries({'fam': st.just('near-bystander'), 'i': st.integers(0, 2), 'k': st.integers(0, 19)})
    victim = st.fixed_dictionaries({'fam': st.just('nack-victim'), 'i': st.integers(0, 2), 'reason': st.sampled_from([50, 100, 150, 0])})
    return st.one_of(raw, raw_framed, raw_framed, seed, mutated, mutated, mutated, mutated, near, wide, victim)


VICTIM_DIGEST = T.enc_tlv(1, b'\x5a' * 32)


def build_input(spec):
    fam = spec['fam']
    if fam == 'nack-victim':
        # a Nack for the Interest  /keep/p<i>/<implicit digest Z>  (pending when the case has `victims`): it addresses that Interest
        # only - the bystander waiting for /keep/p<i> on the very same name-tree node is none of its business
        return net.lp_wrap(net.interest_wire([KEEP, net.comp(f'p{spec["i"]}'), VICTIM_DIGEST], nonce=7), nack_reason=spec['reason'])
    if fam == 'near-bystander':
        # valid packets nobody waits for, whose names are close to - but do not match - the bystanders' names:
        # Data with a LONGER name than a pending Interest that has no CanBePrefix, Data for the parent, a Nack for a
        # longer name, an Interest for the parent of the handlers' prefixes
        i = spec['i']
        # (k >= 10: the fragments as a link with sequence numbers sends them - a Sequence header comes first)
        seq = [(0x51, (spec['k'] * 7 + i).to_bytes(8, 'big'))] if spec['k'] >= 10 else []
        k = spec['k'] % 10 if spec['k'] < 10 else 5 + spec['k'] % 5
        if k == 0:
            return net.data_wire([KEEP, net.comp(f'p{i}'), net.comp('x')], content=b'longer')
        if k == 1:
            return net.data_wire([KEEP], content=b'shorter')
        if k == 2:
            return net.lp_wrap(net.interest_wire([KEEP, net.comp(f'p{i}'), net.comp('x')], nonce=4), nack_reason=150)
        if k == 3:
            return net.interest_wire([KEEP], nonce=5)
        if k == 4:
            return net.data_wire([KEEP, net.comp(f'p{i}x')], content=b'sibling')
        # a packet carrying fragmentation headers (any value, 0 included) is a fragment - not handed on - even when its payload
        # happens to be a complete Data for a pending Interest / Interest for a handler
        inner = net.data_wire([KEEP, net.comp(f'p{i}')], content=b'fragment?') if k % 2 else \
            net.interest_wire([KEEP, net.comp(f'h{i}'), net.comp('frag')], nonce=6)
        fi, fc = [(0, None), (None, 0), (0, 0), (0, 1), (1, None)][(k - 5) % 5] if not seq else [(0, 2), (1, 2), (0, 3), (2, 3), (0, 1)][k - 5]
        return net.lp_wrap(inner, frag_index=fi, frag_count=fc, extra=seq)
    if fam == 'random':
        return bytes.fromhex(spec['hex'])
    if fam == 'random-framed':
        return T.enc_tlv(spec['typ'], bytes.fromhex(spec['hex']))
    w = SEEDS[spec['seed']]
    if fam == 'mutated':
        for m in spec['muts']:
            w2 = M.apply(w, m)
            if w2 is not None:
                w = w2
    return w


def framed_ok(w):
    """Would a stream face hand this buffer over as one packet?"""
    try:
        T.single(w)
        return True
    except T.Malformed:
        return False


def _robust_case(target):
    return st.fixed_dictionaries({
        'target': st.just(target),
        'n_pending': st.integers(0, 3), 'victims': st.sampled_from([False, False, True]), 'n_handlers': st.integers(0, 3),
        'inputs': st.lists(_input_spec(), min_size=1, max_size=6),
        'mode': st.sampled_from(['await', 'task']),
        'debug_log': st.sampled_from([False, False, False, True]),
        'buf': st.sampled_from([0, 0, 1, 2, 3]),     # the face hands packets over as bytes / memoryview / bytearray / writable memoryview
    })


def run_robust(case):
    r = Result()
    target = case['target']
    fe = 'legacy' if 'legacy' in target else 'v2'
    sim = AppSim(fe)
    sim.start()
    keys = set()
    classes = [target] + (['debug-log'] if case.get('debug_log') else [])
    dl = net.debug_logging(bool(case.get('debug_log')))     # reception must not fail because somebody turned the log level up
    dl.__enter__()
    try:
        # bystanders
        pend = []
        for i in range(case['n_pending']):
            nm = [KEEP, net.comp(f'p{i}')]
            pend.append((nm, sim.express(nm, lifetime=4000, vlat=0.0, verdict=_verdict(fe, True))))
            if case.get('victims'):
                # (not a bystander: the `nack-victim` inputs address it)
                sim.express(nm + [VICTIM_DIGEST], lifetime=4000, vlat=0.0, verdict=_verdict(fe, True))
        hcalls = []
        for i in range(case['n_handlers']):
            pf = [KEEP, net.comp(f'h{i}')]
            if fe == 'v2':
                sim.vl.call(sim.app.attach_handler, pf, lambda n, ap, rp, ctx, i=i: hcalls.append(i))
            else:
                sim.vl.call(sim.app.set_interest_filter, pf, lambda n, p, ap, i=i: hcalls.append(i))
        # a handler that the inputs themselves may address (everything under /x): whatever reaches it has gone through the whole
        # Interest pipeline - digest check, validator in force - without an error
        sink = []
        if fe == 'v2':
            async def _accept(_n, _s, _c):
                from ndn.types import ValidResult
                return ValidResult.PASS
            sim.vl.call(sim.app.attach_handler, [net.comp('x')], lambda n, ap, rp, ctx: sink.append(1), _accept)
        else:
            sim.vl.call(sim.app.set_interest_filter, [net.comp('x')], lambda n, p, ap: sink.append(1))
        udp = None
        if target.startswith('udp'):
            udp = _open_udp(sim)
        n_eval = 0
        for spec in case['inputs']:
            w = build_input(spec)
            if b'keep' in w and spec['fam'] not in ('near-bystander', 'nack-victim'):
                continue
            ok_frame = framed_ok(w)
            if not target.startswith('udp') and not ok_frame:
                continue     # a stream face only hands over buffers whose outer type/length is self-consistent
            n_eval += 1
            stage = _deliver(sim, target, udp, w, case['mode'], r, case.get('buf', 0))
            fam = spec['fam'] if spec['fam'] != 'mutated' else 'mut:' + '+'.join(m['k'] for m in spec['muts'])[:40]
            classes.append('framed-ok' if ok_frame else 'framing-broken')
            if ok_frame or spec['fam'] == 'mutated':
                keys.add((target, spec.get('seed', spec['fam']), fam, stage))
            if r.violations:
                break
        errs = sim.vl.collect_errors()
        if errs:
            r.bad(f'C06/{target}/unhandled-loop-error/{errs[0]["type"]}@{_site(errs[0])}', str(errs[:2])[:500])
        if not r.violations:
            # bystanders still complete normally
            for nm, h in pend:
                if h.done_count:
                    r.bad(f'C06/{target}/bystander-interest-finished-early/{_outcome_label(h)}', f'{nm}')
                    break
                sim.deliver(_in_buf(net.data_wire(nm, content=b'ok'), case.get('buf', 0)), 'task')
                sim.vl.advance(0.01)
                if _outcome_label(h) != 'data':
                    r.bad(f'C06/{target}/bystander-interest-broken/{_outcome_label(h)}', f'{nm}')
                    break
            if hcalls:
                r.bad(f'C06/{target}/bystander-handler-called-by-input', f'handlers {hcalls} were invoked by inputs none of which is a '
                      f'complete Interest under their prefixes')
            for i in range(case['n_handlers']):
                before = len(hcalls)
                sim.deliver(_in_buf(net.interest_wire([KEEP, net.comp(f'h{i}'), net.comp('q')], nonce=3), case.get('buf', 0)), 'task')
                sim.vl.advance(0.01)
                if hcalls[before:] != [i]:
                    r.bad(f'C06/{target}/bystander-handler-broken', f'handler {i} calls {hcalls[before:]}')
                    break
            if sim.receive_errors:
                r.bad(f'C06/{target}/bystander-receive-raised/{sim.receive_errors[0].split(":")[0]}', sim.receive_errors[0])
        if n_eval == 0:
            r.discarded = True
    finally:
        dl.__exit__()
        sim.finish()
        sim.close()
    r.key = sorted(map(str, keys)) if keys else None
    r.classes = tuple(classes)
    return r


def _site(err):
    return (err.get('exc') or '')[:40].replace('/', '_')


def _in_buf(w, buf):
    return w if not buf else memoryview(w) if buf == 1 else bytearray(w) if buf == 2 else memoryview(bytearray(w))


def _deliver(sim, target, udp, w, mode, r, buf=0):
    """-> stage label"""
    before = len(sim.receive_errors)
    raw = w
    if not target.startswith('udp'):
        w = _in_buf(w, buf)
    if target.startswith('udp'):
        try:
            with LineBudget(100000 + 300 * len(raw)):
                sim.vl.call(udp.datagram_received, w, ('127.0.0.1', 6363))
                sim.vl.settle()
        except BudgetExceeded as e:
            r.bad(f'C06/{target}/reception-does-not-terminate', f'{e} input={raw.hex()[:160]}')
            return 'raised'
        except Exception as e:
            r.bad(f'C06/{target}/datagram_received-raised/{exc_site(e)}', f'{e!r} input={w.hex()[:120]}')
            return 'raised'
        sim.vl.settle()
        errs = [e for e in sim.vl.errors]
        if errs:
            r.bad(f'C06/{target}/receive-task-failed/{errs[0]["type"]}', f'{errs[0]} input={w.hex()[:120]}')
            sim.vl.errors.clear()
        return 'udp'
    # stream-like delivery: typ is what the face parsed from the first number
    try:
        typ = T.read_num(w, 0, len(w))[0]
    except T.Malformed:
        typ = w[0] if w else 0

    async def _guard():
        try:
            await sim.app.face.callback(typ, w)
        except Exception as e:  # noqa
            sim.receive_errors.append(exc_site(e) + f': {e!r}'[:200])
    # handling one packet takes a bounded number of steps (a decoder walking backwards would spin for ever and freeze the loop)
    with LineBudget(100000 + 300 * len(raw)):
        if mode == 'await':
            sim.vl.run(_guard())
        else:
            async def _spawn():
                asyncio.get_running_loop().create_task(_guard())
            sim.vl.run(_spawn())
        sim.vl.settle()
    if len(sim.receive_errors) > before and 'BudgetExceeded' in sim.receive_errors[before]:
        r.bad(f'C06/{target}/reception-does-not-terminate', f'{sim.receive_errors[before][:120]} input={raw.hex()[:160]}')
        sim.receive_errors.clear()
        return 'raised'
    if len(sim.receive_errors) > before:
        e = sim.receive_errors[before]
        r.bad(f'C06/{target}/receive-raised/{e.split(":")[0]}', f'{e} input={raw.hex()[:160]} buf={buf}')
        return 'raised'
    return 'ok'


def _open_udp(sim):
    """UdpFace.open() on a loop whose create_datagram_endpoint is stubbed -> the protocol object."""
    face = UdpFace('127.0.0.1', 6363)
    face.callback = sim.app.face.callback     # the app's _receive, as NDNApp.__init__ would set it

    class _Tr:
        def sendto(self, data):
            pass

        def close(self):
            pass

    async def fake_endpoint(factory, remote_addr=None, **kw):
        proto = factory()
        tr = _Tr()
        proto.connection_made(tr)
        return tr, proto
    sim.vl.loop.create_datagram_endpoint = fake_endpoint
    sim.vl.run(face.open())
    return face.handler


def _fuzz(ctx, name):
    from ..core import run_fuzz
    seeds = []
    for i, (k, w) in enumerate(sorted(SEEDS.items())):
        seeds.append(bytes([i % 4 | 0x10]) + w)
    run_fuzz(ctx, name, 'c06', {'quick': 0, 'thorough': 60000}, seeds)


SUBCHECKS = {
    'fuzz': SubCheck(run_robust, external=_fuzz,
                     note='atheris (libFuzzer) campaign, thorough tier only: the first byte selects front-end / UdpFace, bystander counts, '
                          'delivery mode and an optional consistent outer type-length; oracle = run_robust (normal return, no '
                          'unhandled loop error, bystanders still work); fresh application per input'),
    'framing-cuts': SubCheck(run_framing, enumerate=_framing_enum, exhaustive={'quick': True, 'thorough': True},
                             note='every single cut position and every adjacent pair of cuts of fixed streams <= 600 B (incl. truncated tails)'),
    'framing': SubCheck(run_framing, strategy=lambda tier: _framing_case(), examples={'quick': 600, 'thorough': 20000}),
    'two-faces': SubCheck(run_two_faces, strategy=lambda tier: st.fixed_dictionaries({
        'a': st.lists(_PKT.filter(lambda p: p[1] <= 300), min_size=1, max_size=4),
        'b': st.lists(_PKT.filter(lambda p: p[1] <= 300), min_size=1, max_size=4),
        'schedule': st.lists(st.tuples(st.integers(0, 1), st.integers(1, 9)).map(list), min_size=2, max_size=40)}),
        examples={'quick': 300, 'thorough': 10000}),
    'robust-v2': SubCheck(run_robust, strategy=lambda tier: _robust_case('v2'), examples={'quick': 1500, 'thorough': 60000}),
    'robust-legacy': SubCheck(run_robust, strategy=lambda tier: _robust_case('legacy'), examples={'quick': 1500, 'thorough': 60000}),
    'robust-udp-v2': SubCheck(run_robust, strategy=lambda tier: _robust_case('udp-v2'), examples={'quick': 800, 'thorough': 30000}),
    'robust-udp-legacy': SubCheck(run_robust, strategy=lambda tier: _robust_case('udp-legacy'), examples={'quick': 800, 'thorough': 30000}),
}
