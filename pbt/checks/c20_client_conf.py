"""C20 - client configuration resolves with environment over file over platform default."""
import itertools
import os
import shutil
import tempfile

from hypothesis import strategies as st

from ndn import client_conf
from ndn.platform import Platform
from ndn.security import KeychainSqlite3, TpmFile
from ndn.transport.stream_face import TcpFace, UnixFace
from ndn.transport.udp_face import UdpFace

from ..core import Result, SubCheck

PROPERTY_ID = 'C20'
RULE = ('A sandbox directory tree per case (HOME inside it, CWD inside it); the Platform singleton\'s candidate-path methods patched to '
        'sandbox paths (3 candidate config files, any subset existing) plus one un-patched pass checking Linux\'s own answers under the '
        'sandbox HOME; each NDN_CLIENT_{TRANSPORT,PIB,TPM} absent/present; config files with comments, blank lines, any subset of keys, '
        'spaces around "=", unknown keys; store locations in {scheme only, absolute existing, relative to the config file and existing '
        'there, relative to CWD and existing, missing absolute, missing relative} x platform default location existing/missing; '
        'transport URIs over unix/tcp/tcp4/tcp6/udp/udp4/udp6 with IPv4 / host name / [v6] literals, with and without port, and '
        'unsupported schemes. Oracle: an independent resolver written from the property text; default_face class/host/path/port '
        '(6363 default), unknown scheme => exception; default_keychain sqlite path <loc>/pib.db and TpmFile path, unknown scheme => '
        'exception. The presence/absence product is enumerated exhaustively (grid); values are sampled. Non-trivial = >=2 sources '
        'define the same key, or a relative location; distinct key = (presence pattern, location kinds).')
ASSUMPTIONS = [
    'no "%" in config values (ConfigParser interpolation) and no second ":" in a store value (resolve_location cannot split it)',
    'no duplicate keys inside one config file (ConfigParser refuses them)',
    'where the property is silent (missing location AND missing platform default) no demand is made',
    'transport URIs carry a host; unix URIs carry an absolute path',
]

KEYS = ('transport', 'pib', 'tpm')
LOC_KINDS = ['none', 'abs-existing', 'rel-conf-existing', 'rel-cwd-existing', 'rel-both-existing', 'missing-abs', 'missing-rel',
             'abs-existing-file', 'rel-conf-existing-file', 'abs-dollar-existing', 'abs-dollar-missing']


class Sandbox:
    def __init__(self):
        self.root = tempfile.mkdtemp(prefix='c20-')
        self.home = os.path.join(self.root, 'home')
        self.cwd = os.path.join(self.root, 'cwd')
        os.makedirs(self.home)
        os.makedirs(self.cwd)
        self.saved_env = {k: os.environ.get(k) for k in ['HOME', 'C20VAR'] + [f'NDN_CLIENT_{k.upper()}' for k in KEYS]}
        os.environ['C20VAR'] = 'decoy'
        self.saved_cwd = os.getcwd()
        os.environ['HOME'] = self.home
        for k in KEYS:
            os.environ.pop(f'NDN_CLIENT_{k.upper()}', None)
        os.chdir(self.cwd)
        self.platform = Platform()
        self.patched = []

    def patch(self, name, fn):
        setattr(self.platform, name, fn)
        self.patched.append(name)

    def close(self):
        for n in self.patched:
            try:
                delattr(self.platform, n)
            except AttributeError:
                pass
        os.chdir(self.saved_cwd)
        for k, v in self.saved_env.items():
            if v is None:
                os.environ.pop(k, None)
            else:
                os.environ[k] = v
        shutil.rmtree(self.root, ignore_errors=True)


def materialise_loc(sb, kind, tag, conf_dir):
    """-> (location text to write, reference-resolved absolute or relative result, exists?)"""
    if kind == 'none':
        return '', None
    if kind == 'abs-existing':
        p = os.path.join(sb.root, 'stores', tag)
        os.makedirs(p, exist_ok=True)
        return p, p
    if kind in ('abs-dollar-existing', 'abs-dollar-missing'):
        # a location whose text contains `$C20VAR` (a DEFINED environment variable): configured locations are taken literally; the
        # directory the expansion would name exists as a decoy
        os.makedirs(os.path.join(sb.root, 'stores', 'decoy-' + tag), exist_ok=True)
        p = os.path.join(sb.root, 'stores', '$C20VAR-' + tag)
        if kind == 'abs-dollar-existing':
            os.makedirs(p, exist_ok=True)
            return p, p
        return p, 'MISSING'
    if kind in ('abs-percent-existing', 'abs-percent2-existing'):
        # (environment values only) a directory with `%` / `%%` in its name: an environment override is used as it stands - the
        # `%` interpolation of the configuration-file reader has no business with it
        p = os.path.join(sb.root, 'stores', ('50%-' if kind == 'abs-percent-existing' else 'a%%b-') + tag)
        os.makedirs(p, exist_ok=True)
        return p, p
    if kind == 'abs-existing-file':
        # a location that exists but is not a directory (e.g. a store kept in one file, or a device): it exists, so it is used as given
        p = os.path.join(sb.root, 'stores', tag + '.store')
        os.makedirs(os.path.dirname(p), exist_ok=True)
        open(p, 'w').close()
        return p, p
    if kind == 'rel-conf-existing-file':
        rel = f'relstore-{tag}.store'
        if conf_dir is None:
            return rel, 'MISSING'
        open(os.path.join(conf_dir, rel), 'w').close()
        return rel, os.path.join(conf_dir, rel)
    if kind == 'rel-conf-existing':
        rel = f'relstore-{tag}'
        if conf_dir is None:
            return rel, 'MISSING'
        os.makedirs(os.path.join(conf_dir, rel), exist_ok=True)
        return rel, os.path.join(conf_dir, rel)
    if kind == 'rel-both-existing':
        # the same relative name exists under the working directory AND next to the config file: it exists, so it is used as given
        rel = f'bothstore-{tag}'
        os.makedirs(os.path.join(sb.cwd, rel), exist_ok=True)
        if conf_dir is not None:
            os.makedirs(os.path.join(conf_dir, rel), exist_ok=True)
        return rel, rel
    if kind == 'rel-cwd-existing':
        rel = f'cwdstore-{tag}'
        os.makedirs(os.path.join(sb.cwd, rel), exist_ok=True)
        return rel, rel           # "a store location that exists is used as given"
    if kind == 'missing-abs':
        return os.path.join(sb.root, 'nowhere', tag), 'MISSING'
    return f'nowhere-{tag}', 'MISSING'


def render_file(spec, values):
    lines = []
    for li, ln in enumerate(spec['lines']):
        if ln[0] == 'junk':
            lines.append(f'unknown_key_{li}=whatever')      # unique: ConfigParser refuses duplicate keys
            continue
        if ln[0] == 'comment':
            lines.append(('; ' if ln[1] % 2 else '# ') + 'comment %d' % ln[1])
        elif ln[0] == 'blank':
            lines.append('')
        elif ln[0] == 'junk':
            lines.append(f'unknown_key_{ln[1]}=whatever')
        else:
            key = ln[1]
            if key not in values:
                continue
            sep = ['=', ' = ', '= ', ' ='][ln[2] % 4]
            k = key if ln[2] < 4 else key.upper()
            lines.append(f'{k}{sep}{values[key]}')
    return '\n'.join(lines) + '\n'


def run_case(case):
    r = Result()
    sb = Sandbox()
    try:
        _run(sb, case, r)
    finally:
        sb.close()
    return r


def _run(sb, case, r):
    cand = [os.path.join(sb.root, 'etc%d' % i, 'ndn', 'client.conf') for i in range(3)]
    sb.patch('client_conf_paths', lambda: list(cand))
    plat_transport = 'unix:///sandbox/default.sock'
    sb.patch('default_transport', lambda: plat_transport)
    sb.patch('default_pib_scheme', lambda: 'pib-sqlite3')
    sb.patch('default_tpm_scheme', lambda: 'tpm-file')
    defaults = {'pib': [os.path.join(sb.root, 'dflt', 'pib-a'), os.path.join(sb.root, 'dflt', 'pib-b')],
                'tpm': [os.path.join(sb.root, 'dflt', 'tpm-a'), os.path.join(sb.root, 'dflt', 'tpm-b')]}
    sb.patch('default_pib_paths', lambda: list(defaults['pib']))
    sb.patch('default_tpm_paths', lambda: list(defaults['tpm']))
    for key in ('pib', 'tpm'):
        for i, ex in enumerate(case['default_exists'][key]):
            if ex:
                os.makedirs(defaults[key][i], exist_ok=True)
    # which config file is "the first existing"
    first = next((i for i in range(3) if case['files'][i] is not None), None)
    conf_path = cand[first] if first is not None else None
    conf_dir = os.path.dirname(conf_path) if conf_path else None
    file_values = [None, None, None]
    for i in range(3):
        fs = case['files'][i]
        if fs is None:
            continue
        os.makedirs(os.path.dirname(cand[i]), exist_ok=True)
        vals = {}
        for key in KEYS:
            v = fs['values'].get(key)
            if v is None:
                continue
            if key == 'transport':
                vals[key] = v
            else:
                loc_text, _ = materialise_loc(sb, v['loc'], f'f{i}{key}', os.path.dirname(cand[i]))
                vals[key] = v['scheme'] + (':' + loc_text if v['loc'] != 'none' else ('' if v.get('bare') else ':'))
        file_values[i] = vals
        if case.get('symlink'):
            # the candidate path is a symbolic link to a file kept elsewhere (dotfiles manager): locations relative to the
            # configuration file still mean "next to the path it was found under"
            real_dir = os.path.join(sb.root, f'dotfiles{i}')
            os.makedirs(real_dir, exist_ok=True)
            with open(os.path.join(real_dir, 'client.conf'), 'w') as f:
                f.write(render_file(fs, vals))
            os.symlink(os.path.join(real_dir, 'client.conf'), cand[i])
            continue
        with open(cand[i], 'w') as f:
            f.write(render_file(fs, vals))
    env_vals = {}
    for key in KEYS:
        v = case['env'].get(key)
        if v is None:
            continue
        if key == 'transport':
            env_vals[key] = v
        else:
            loc_text, _ = materialise_loc(sb, v['loc'], f'e{key}', conf_dir)
            env_vals[key] = v['scheme'] + (':' + loc_text if v['loc'] != 'none' else '')
        os.environ[f'NDN_CLIENT_{key.upper()}'] = env_vals[key]
    if case.get('keyfile_in_pib'):
        # every existing pib directory of this case happens to contain a directory named like the default key store: that has
        # no bearing on where the tpm is looked for
        for base, dirs, _files in list(os.walk(sb.root)):
            for dname in dirs:
                if 'pib' in dname and 'ndnsec-key-file' not in base:
                    os.makedirs(os.path.join(base, dname, 'ndnsec-key-file'), exist_ok=True)
    # ---- reference resolution -------------------------------------------------------------------------------------
    want = {}
    sources = {}
    for key in KEYS:
        n_src = 0
        val = plat_transport if key == 'transport' else ('pib-sqlite3' if key == 'pib' else 'tpm-file')
        src = 'default'
        if first is not None and key in file_values[first] and _key_written(case['files'][first], key):
            val, src = file_values[first][key], 'file'
            n_src += 1
        if key in env_vals:
            val, src = env_vals[key], 'env'
            n_src += 1
        sources[key] = (src, n_src)
        if key == 'transport':
            want[key] = val
            continue
        scheme, _, loc = val.partition(':')
        resolved = None
        if loc and os.path.exists(loc):
            resolved = loc
        elif loc and conf_dir and os.path.exists(os.path.join(conf_dir, loc)):
            resolved = os.path.join(conf_dir, loc)
        else:
            dflt = next((p for p in defaults[key] if os.path.exists(p)), None)
            resolved = dflt       # None => the property is silent
        want[key] = (scheme, resolved)
    # ---- library ---------------------------------------------------------------------------------------------------
    try:
        got = client_conf.read_client_conf()
    except Exception as e:
        r.bad(f'C20/read_client_conf-raised/{type(e).__name__}', f'{e!r} case={case}')
        return
    for key in KEYS:
        if key == 'transport':
            if got[key] != want[key]:
                r.bad(f'C20/transport/source={sources[key][0]}', f'got {got[key]!r} want {want[key]!r}')
            continue
        scheme, resolved = want[key]
        gs, _, gl = got[key].partition(':')
        if gs != scheme:
            r.bad(f'C20/{key}/scheme/source={sources[key][0]}', f'got {got[key]!r} want scheme {scheme!r}')
        elif resolved is not None and gl != resolved:
            kind = _loc_kind(case, key, sources[key][0], first)
            r.bad(f'C20/{key}/location/{kind}/source={sources[key][0]}', f'got {gl!r} want {resolved!r}')
    # default_keychain on the resolved values (only when both locations exist)
    if not r.violations and case.get('open_keychain'):
        ps, pl = got['pib'].partition(':')[0], got['pib'].partition(':')[2]
        ts, tl = got['tpm'].partition(':')[0], got['tpm'].partition(':')[2]
        if pl and os.path.isdir(pl) and tl and os.path.isdir(tl):
            known = ps == 'pib-sqlite3' and ts == 'tpm-file'
            if known and not os.path.exists(os.path.join(pl, 'pib.db')):
                KeychainSqlite3.initialize(os.path.join(pl, 'pib.db'), 'tpm-file', tl)
            try:
                kc = client_conf.default_keychain(got['pib'], got['tpm'])
                if not known:
                    r.bad('C20/keychain/unknown-scheme-accepted', f'{got["pib"]} {got["tpm"]}')
                else:
                    if not isinstance(kc, KeychainSqlite3) or kc.path != os.path.join(pl, 'pib.db'):
                        r.bad('C20/keychain/pib-path', f'{getattr(kc, "path", None)}')
                    if not isinstance(kc.tpm, TpmFile) or kc.tpm.path != tl:
                        r.bad('C20/keychain/tpm-path', f'{getattr(kc.tpm, "path", None)}')
                    kc.conn.close()
            except Exception as e:
                if known:
                    r.bad(f'C20/keychain/raised/{type(e).__name__}', repr(e))
    # an application object is built from the configuration (no face given), THEN the environment changes, then the keychain
    # entry points are asked: they follow the configuration as it is now
    if not r.violations and case.get('late_env'):
        from ndn import appv2
        try:
            appv2.NDNApp()
        except Exception:
            pass          # (an unusable transport value is not this step's business)
        late_pib, late_tpm = os.path.join(sb.root, 'late-pib'), os.path.join(sb.root, 'late-tpm')
        os.makedirs(late_pib)
        os.makedirs(late_tpm)
        KeychainSqlite3.initialize(os.path.join(late_pib, 'pib.db'), 'tpm-file', late_tpm)
        os.environ['NDN_CLIENT_PIB'] = 'pib-sqlite3:' + late_pib
        os.environ['NDN_CLIENT_TPM'] = 'tpm-file:' + late_tpm
        for label, fn in (('appv2.NDNApp.default_keychain', appv2.NDNApp.default_keychain),):
            try:
                kc = fn()
                if getattr(kc, 'path', None) != os.path.join(late_pib, 'pib.db') or getattr(kc.tpm, 'path', None) != late_tpm:
                    r.bad(f'C20/keychain/stale-configuration/{label}', f'{getattr(kc, "path", None)} / {getattr(kc.tpm, "path", None)}')
                kc.conn.close()
            except Exception as e:
                r.bad(f'C20/keychain/raised-after-environment-change/{type(e).__name__}', repr(e)[:200])
    # the configuration file is replaced (same path, modification time NOT newer) and read again in the same process
    if not r.violations and case.get('reread') and first is not None and 'transport' not in env_vals:
        new_t = 'tcp://192.0.2.7:7777'
        vals2 = dict(file_values[first], transport=new_t)
        fs2 = dict(case['files'][first])
        if not _key_written(fs2, 'transport'):
            fs2 = dict(fs2, lines=fs2['lines'] + [['kv', 'transport', 0]])
        st0 = os.stat(cand[first])
        with open(cand[first], 'w') as f:
            f.write(render_file(fs2, vals2))
        os.utime(cand[first], ns=(st0.st_atime_ns, st0.st_mtime_ns - case['reread'] * 10 ** 9))
        try:
            got2 = client_conf.read_client_conf()
            if got2['transport'] != new_t:
                r.bad('C20/transport/stale-after-config-file-replaced', f'got {got2["transport"]!r} want {new_t!r}')
        except Exception as e:
            r.bad(f'C20/read_client_conf-raised/{type(e).__name__}', repr(e))
    multi = any(n >= 2 for _s, n in sources.values())
    rel = any(_loc_kind(case, k, sources[k][0], first).startswith('rel') for k in ('pib', 'tpm'))
    pattern = (tuple(f is not None for f in case['files']), tuple(k in env_vals for k in KEYS),
               tuple(_loc_kind(case, k, sources[k][0], first) for k in ('pib', 'tpm')),
               tuple(tuple(case['default_exists'][k]) for k in ('pib', 'tpm')))
    r.key = pattern if (multi or rel) else None
    r.classes = tuple(f'{k}:{sources[k][0]}' for k in KEYS) + (('multi-source',) if multi else ()) + (('relative',) if rel else ())


def _key_written(fs, key):
    return any(ln[0] == 'kv' and ln[1] == key for ln in fs['lines'])


def _loc_kind(case, key, src, first):
    if src == 'env':
        return case['env'][key]['loc']
    if src == 'file':
        return case['files'][first]['values'][key]['loc']
    return 'default'


# ---- strategies ------------------------------------------------------------------------------------------------------------
_TRANSPORTS = st.sampled_from(['unix:///run/nfd/nfd.sock', 'tcp://127.0.0.1:6363', 'udp4://10.0.0.1', 'tcp6://[::1]:7000',
                               'unix:///tmp/x.sock', 'tcp://router.example'])
# a configuration FILE may name a transport this library has no face for (written for another NDN client): reading the
# configuration takes it as text - it is refused only when a face is made from it, and never when the environment overrides it
_TRANSPORTS_FILE = st.one_of(_TRANSPORTS, _TRANSPORTS, st.sampled_from(['wss://example.net:9696/ws', 'ws://localhost:9696', '/run/nfd/nfd.sock']))
# an ENVIRONMENT override may contain `%` (IPv6 zone id, directory names)
_TRANSPORTS_ENV = st.one_of(_TRANSPORTS, _TRANSPORTS, st.sampled_from(['udp6://[fe80::1%eth0]:6363', 'unix:///tmp/100%%/nfd.sock',
                                                                          'tcp://[fe80::2%25lo]', 'wss://example.net/ws']))


def _store(schemes, extra_locs=()):
    return st.fixed_dictionaries({'scheme': st.sampled_from(schemes), 'loc': st.sampled_from(LOC_KINDS + list(extra_locs)), 'bare': st.booleans()})


_PIB = _store(['pib-sqlite3', 'pib-sqlite3', 'pib-memory'])
_TPM = _store(['tpm-file', 'tpm-file', 'tpm-osxkeychain', 'tpm-x'])
_ENV_LOCS = ('abs-percent-existing', 'abs-percent2-existing')
_PIB_ENV = _store(['pib-sqlite3', 'pib-sqlite3', 'pib-memory'], _ENV_LOCS)
_TPM_ENV = _store(['tpm-file', 'tpm-file', 'tpm-osxkeychain', 'tpm-x'], _ENV_LOCS)


@st.composite
def _filespec(draw):
    present = draw(st.lists(st.sampled_from(KEYS), unique=True, max_size=3))
    values = {}
    if 'transport' in present:
        values['transport'] = draw(_TRANSPORTS_FILE)
    if 'pib' in present:
        values['pib'] = draw(_PIB)
    if 'tpm' in present:
        values['tpm'] = draw(_TPM)
    lines = [['kv', k, draw(st.integers(0, 7))] for k in present]
    for _ in range(draw(st.integers(0, 3))):
        kind = draw(st.sampled_from(['comment', 'blank', 'junk']))
        lines.insert(draw(st.integers(0, len(lines))), [kind, draw(st.integers(0, 9))])
    return {'values': values, 'lines': lines}


@st.composite
def _case(draw):
    return {'files': [draw(st.one_of(st.none(), _filespec())) for _ in range(3)],
            # (a variable may be present but EMPTY - `NDN_CLIENT_TRANSPORT= app`: it is present, so it is the value used)
            'env': {'transport': draw(st.one_of(st.none(), _TRANSPORTS_ENV, st.just(''))),
                    'pib': draw(st.one_of(st.none(), _PIB_ENV, _PIB_ENV, st.just({'scheme': '', 'loc': 'none', 'bare': True}))),
                    'tpm': draw(st.one_of(st.none(), _TPM_ENV, _TPM_ENV, st.just({'scheme': '', 'loc': 'none', 'bare': True})))},
            'default_exists': {'pib': [draw(st.booleans()), draw(st.booleans())], 'tpm': [draw(st.booleans()), draw(st.booleans())]},
            'open_keychain': draw(st.booleans()), 'reread': draw(st.sampled_from([None, None, 0, 5])),
            'symlink': draw(st.sampled_from([False, False, True])), 'late_env': draw(st.sampled_from([False, False, True])),
            'keyfile_in_pib': draw(st.sampled_from([False, True]))}


def _grid(tier):
    """Presence/absence product: 2^3 env x file presence subsets (4) x 2^3 file keys x location kind x default exists."""
    locs = LOC_KINDS
    for envmask in range(8):
        for files in ((False, False, False), (True, False, False), (False, True, True), (False, False, True)):
            for fkeys in range(8):
                if not any(files) and fkeys:
                    continue
                for li, loc in enumerate(locs):
                    for dflt in ((True, False), (False, False)) if tier == 'quick' else ((True, True), (True, False), (False, True), (False, False)):
                        if tier == 'quick' and (envmask + fkeys + li) % 3:
                            continue
                        def store(s):
                            return {'scheme': s, 'loc': loc, 'bare': False}
                        fvals = {}
                        lines = []
                        for bi, k in enumerate(KEYS):
                            if fkeys & (1 << bi):
                                fvals[k] = 'tcp://10.1.1.1:7001' if k == 'transport' else store('pib-sqlite3' if k == 'pib' else 'tpm-file')
                                lines.append(['kv', k, bi])
                        fs = {'values': fvals, 'lines': [['comment', 1]] + lines + [['blank', 0]]}
                        env = {}
                        for bi, k in enumerate(KEYS):
                            if envmask & (1 << bi):
                                env[k] = 'udp://10.2.2.2' if k == 'transport' else store('pib-sqlite3' if k == 'pib' else 'tpm-file')
                            else:
                                env[k] = None
                        yield {'files': [dict(fs) if f else None for f in files], 'env': env,
                               'default_exists': {'pib': list(dflt), 'tpm': list(dflt)}, 'open_keychain': True}


# ---- faces ------------------------------------------------------------------------------------------------------------------
def run_face(case):
    r = Result()
    uri = case['uri']
    try:
        face = client_conf.default_face(uri)
        raised = None
    except Exception as e:
        face, raised = None, e
    want = case['want']
    if want is None:
        if raised is None:
            r.bad('C20/face/unknown-scheme-accepted', f'{uri} -> {type(face).__name__}')
    elif raised is not None:
        r.bad(f'C20/face/refused/{type(raised).__name__}', f'{uri}: {raised!r}')
    else:
        cls = {'unix': UnixFace, 'tcp': TcpFace, 'udp': UdpFace}[want[0]]
        if type(face) is not cls:
            r.bad('C20/face/class', f'{uri} -> {type(face).__name__}')
        elif want[0] == 'unix':
            if face.path != want[1]:
                r.bad('C20/face/unix-path', f'{uri} -> {face.path!r}')
        else:
            if face.host != want[1] or int(face.port) != want[2]:
                r.bad(f'C20/face/address/{"default-port" if case["port"] is None else "explicit-port"}',
                      f'{uri} -> {face.host!r}:{face.port!r} want {want[1]}:{want[2]}')
    r.key = (case['scheme'], case['hostkind'], case['port'] is None, want is None)
    r.classes = (f'scheme:{case["scheme"]}',)
    return r


@st.composite
def _face_case(draw):
    scheme = draw(st.sampled_from(['unix', 'tcp', 'tcp4', 'tcp6', 'udp', 'udp4', 'udp6', 'ws', 'wss', 'quic', 'ether', 'http', 'tcpx', '']))
    if scheme == 'unix':
        path = '/' + '/'.join(draw(st.lists(st.sampled_from(['run', 'nfd', 'tmp', 'x.sock', 'a-b_c']), min_size=1, max_size=3)))
        return {'uri': f'unix://{path}', 'want': ['unix', path], 'scheme': scheme, 'hostkind': 'path', 'port': None}
    hostkind = draw(st.sampled_from(['v4', 'name', 'v6']))
    if hostkind == 'v4':
        host = '.'.join(str(draw(st.integers(0, 255))) for _ in range(4))
        lit = host
    elif hostkind == 'name':
        host = draw(st.sampled_from(['localhost', 'router.example', 'a-b.c', 'hobo.cs.arizona.edu']))
        lit = host
    else:
        host = draw(st.sampled_from(['::1', 'fe80::1', '2001:db8::7']))
        lit = f'[{host}]'
    port = draw(st.one_of(st.none(), st.sampled_from([1, 6363, 65535]), st.integers(1, 65535)))
    uri = f'{scheme}://{lit}' + (f':{port}' if port is not None else '')
    fam = 'tcp' if scheme.startswith('tcp') and scheme in ('tcp', 'tcp4', 'tcp6') else 'udp' if scheme in ('udp', 'udp4', 'udp6') else None
    want = [fam, host, port if port is not None else 6363] if fam else None
    return {'uri': uri, 'want': want, 'scheme': scheme or 'none', 'hostkind': hostkind, 'port': port}


# ---- un-patched Linux answers ------------------------------------------------------------------------------------------
def run_linux(case):
    r = Result()
    sb = Sandbox()
    restore = []
    try:
        p = sb.platform
        if type(p).__name__ != 'Linux':
            r.discarded = True
            return r
        paths = p.client_conf_paths()
        if paths[0] != os.path.join(sb.home, '.ndn', 'client.conf'):
            r.bad('C20/linux/home-conf-path', str(paths))
        if p.default_pib_paths() != [os.path.join(sb.home, '.ndn')] or p.default_tpm_paths() != [os.path.join(sb.home, '.ndn', 'ndnsec-key-file')]:
            r.bad('C20/linux/default-store-paths', f'{p.default_pib_paths()} {p.default_tpm_paths()}')
        if any(os.path.exists(x) for x in paths[1:]):
            r.discarded = True
            return r
        # which of the two forwarder sockets "exist" is part of the case (os.path.exists answers for exactly these two paths)
        socks = {'/run/nfd/nfd.sock': bool(case.get('sock_new')), '/run/nfd.sock': bool(case.get('sock_old'))}
        real_exists = os.path.exists
        os.path.exists = lambda pth: socks[pth] if pth in socks else real_exists(pth)
        restore.append(real_exists)
        ndn = os.path.join(sb.home, '.ndn')
        if case['home_dir']:
            os.makedirs(os.path.join(ndn, 'ndnsec-key-file') if case['tpm_dir'] else ndn, exist_ok=True)
        want_t = 'unix:///run/nfd.sock' if (case.get('sock_old') and not case.get('sock_new')) else 'unix:///run/nfd/nfd.sock'
        if case['conf'] is not None and case['home_dir']:
            with open(os.path.join(ndn, 'client.conf'), 'w') as f:
                f.write(f'; comment\ntransport={case["conf"]}\n')
            want_t = case['conf']
        if case['env'] is not None:
            os.environ['NDN_CLIENT_TRANSPORT'] = case['env']
            want_t = case['env']
        got = client_conf.read_client_conf()
        if got['transport'] != want_t:
            r.bad('C20/linux/transport', f'{got["transport"]!r} != {want_t!r}')
        want_pib = 'pib-sqlite3:' + (ndn if case['home_dir'] else None or '')
        if case['home_dir'] and got['pib'] != 'pib-sqlite3:' + ndn:
            r.bad('C20/linux/pib', f'{got["pib"]!r}')
        if case['home_dir'] and case['tpm_dir'] and got['tpm'] != 'tpm-file:' + os.path.join(ndn, 'ndnsec-key-file'):
            r.bad('C20/linux/tpm', f'{got["tpm"]!r}')
    finally:
        if restore:
            os.path.exists = restore[0]
        sb.close()
    r.key = (case['home_dir'], case['tpm_dir'], case['conf'] is not None, case['env'] is not None, bool(case.get('sock_new')), bool(case.get('sock_old')))
    return r


def _linux_grid(tier):
    for home_dir, tpm_dir, conf, env in itertools.product([False, True], [False, True], [None, 'tcp://1.2.3.4:6363'], [None, 'udp://5.6.7.8']):
        for sock_new, sock_old in itertools.product([False, True], [False, True]):
            yield {'home_dir': home_dir, 'tpm_dir': tpm_dir, 'conf': conf, 'env': env, 'sock_new': sock_new, 'sock_old': sock_old}


def run_home_unset(case):
    """HOME unset or empty: the per-user locations are those of the account's home directory (password database), never the working
    directory - a client.conf lying in ./.ndn is not read."""
    r = Result()
    sb = Sandbox()
    try:
        decoy = 'tcp://decoy.example:%d' % (6000 + case['n'])
        os.makedirs(os.path.join(sb.cwd, '.ndn'), exist_ok=True)
        with open(os.path.join(sb.cwd, '.ndn', 'client.conf'), 'w') as f:
            f.write(f'transport={decoy}\n')
        if case['home'] == 'unset':
            os.environ.pop('HOME', None)
        else:
            os.environ['HOME'] = ''
        try:
            got = client_conf.read_client_conf()
        except Exception as e:
            return r.bad(f'C20/home-{case["home"]}/raised/{type(e).__name__}', repr(e)[:200])
        if got['transport'] == decoy:
            r.bad(f'C20/home-{case["home"]}/configuration-read-from-working-directory', f'transport {got["transport"]}')
        for key in ('pib', 'tpm'):
            if got[key].partition(':')[2].startswith(sb.cwd) or got[key].partition(':')[2].startswith('.ndn'):
                r.bad(f'C20/home-{case["home"]}/{key}-location-in-working-directory', got[key])
    finally:
        sb.close()
    r.key = (case['home'], case['n'])
    r.classes = ('home-' + case['home'],)
    return r


SUBCHECKS = {
    'home-unset': SubCheck(run_home_unset, enumerate=lambda tier: [{'home': h, 'n': n} for h in ('unset', 'empty') for n in range(3)],
                           exhaustive={'quick': True, 'thorough': True}, note='HOME unset / empty with a decoy ./.ndn/client.conf'),
    'grid': SubCheck(run_case, enumerate=_grid, exhaustive={'quick': False, 'thorough': True},
                     note='presence/absence product env(2^3) x existing-file pattern(4) x file keys(2^3) x location kind(6) x default-location '
                          'existence(4); thorough = complete, quick = every third combination'),
    'linux': SubCheck(run_linux, enumerate=_linux_grid, exhaustive={'quick': True, 'thorough': True},
                      note='un-patched Linux platform answers under a sandbox HOME'),
    'configs': SubCheck(run_case, strategy=lambda tier: _case(), examples={'quick': 1500, 'thorough': 40000}),
    'faces': SubCheck(run_face, strategy=lambda tier: _face_case(), examples={'quick': 1500, 'thorough': 40000}),
}
