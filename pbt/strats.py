"""Shared Hypothesis strategies.  Everything is JSON-serialisable: bytes are hex strings."""
from hypothesis import strategies as st

from .refs import tlv as T

# ---- name components --------------------------------------------------------------------
COMP_TYPES = st.one_of(
    st.just(8), st.just(8), st.just(8),
    st.sampled_from([1, 2, 8, 32, 50, 52, 54, 56, 58, 252, 253, 254, 255, 256, 65535]),
    st.integers(1, 65535),
)
_SPECIAL_BYTES = b'%/=.~\x00\xff -_+:?#&'
_BYTE = st.one_of(st.sampled_from(list(_SPECIAL_BYTES)), st.integers(0x30, 0x7a), st.integers(0, 255))


def comp_value(max_len=40):
    small = st.lists(_BYTE, min_size=0, max_size=min(max_len, 12)).map(bytes)
    sizes = [n for n in (0, 1, 2, 3, 4, 8, 32, 33, 252, 253, 300) if n <= max_len]
    sized = st.sampled_from(sizes).flatmap(lambda n: st.binary(min_size=n, max_size=n))
    # values made of one repeated character that URI schemes treat specially ('...', '%%', '==', ...)
    runs = st.tuples(st.sampled_from(list(b'..%=/~ ')), st.integers(1, min(max_len, 6))).map(lambda t: bytes([t[0]]) * t[1])
    # text that looks like syntax of some URI scheme
    schemes = st.sampled_from([b'ndn:', b'NDN:', b'ndn:a', b'http:', b'a:b', b'ndn', b':'])
    return st.one_of(small, small, small, small, small, small, sized, sized, st.binary(max_size=max_len), st.binary(max_size=max_len), runs,
                     schemes)


def _number_value():
    edges = [0, 1, 0xFF, 0x100, 0xFFFF, 0x10000, 0xFFFFFFFF, 0x100000000, 2 ** 64 - 1]
    return st.one_of(st.sampled_from(edges), st.integers(0, 2 ** 64 - 1), st.integers(0, 1000))


@st.composite
def component(draw, max_len=40, allow_digest_types=True):
    typ = draw(COMP_TYPES)
    if not allow_digest_types and typ in (1, 2):
        typ = 8
    if typ in (1, 2) and draw(st.integers(0, 3)) > 0:
        val = draw(st.binary(min_size=32, max_size=32))
    elif typ in (50, 52, 54, 56, 58) and draw(st.integers(0, 3)) > 0:
        val = T.enc_nni(draw(_number_value()))
    else:
        val = draw(comp_value(max_len))
    return [typ, val.hex()]


def name(min_size=0, max_size=8, max_len=40, allow_digest_types=True):
    return st.lists(component(max_len, allow_digest_types), min_size=min_size, max_size=max_size)


def comp_bytes(c) -> bytes:
    return T.enc_tlv(c[0], bytes.fromhex(c[1]))


def name_comps(n):
    """JSON name -> list of encoded components (bytes), by the independent encoder."""
    return [comp_bytes(c) for c in n]


def name_wire(n) -> bytes:
    return T.enc_tlv(7, b''.join(name_comps(n)))


# small alphabet names: many collisions / shared prefixes (for PIT/FIB/trie style checks)
def tree_name(depth=3, alphabet=('a', 'b', 'c')):
    return st.lists(st.sampled_from(list(alphabet)), min_size=0, max_size=depth)
