"""
vcheck <ID> [--tier quick|thorough] [--replay FILE] [--shards N]

Runs one property check.  Contract (MANIFEST.json):
  exit 0  property held on everything explored (KNOWN-FINDING lines allowed)
  exit 1  + line "VIOLATION property=<id> replay=<path>"
  exit 2  harness error (never a VIOLATION line)

A check module (pbt/checks/cNN_*.py) exposes
  PROPERTY_ID, RULE (text), ASSUMPTIONS (list), LEVEL (default exploration)
  SUBCHECKS: dict name -> SubCheck(...)   (see pbt/core.py)
Every sub-check is "strategy -> JSON case -> run_case(case) -> [Violation]".
"""
import argparse
import importlib
import json
import os
import pkgutil
import subprocess
import sys
import tempfile
import time
import traceback

from . import core


def find_module(pid: str):
    import pbt.checks as pkg
    for m in pkgutil.iter_modules(pkg.__path__):
        if m.name.lower().startswith(pid.lower() + '_') or m.name.lower() == pid.lower():
            return importlib.import_module(f'pbt.checks.{m.name}')
    raise SystemExit(f'no check module for {pid}')


def run_shard(args) -> int:
    """Run all sub-checks of one property in this process, for one shard."""
    mod = find_module(args.id)
    ctx = core.Ctx(property_id=mod.PROPERTY_ID, tier=args.tier, seed=args.seed,
                   shard=args.shard, nshards=args.nshards, only=args.only)
    t0 = time.time()
    status = 0
    try:
        ctx.run_module(mod)
    except core.ViolationFound as v:
        status = 1
        ctx.violation = {'signature': v.signature, 'detail': v.detail, 'subcheck': v.subcheck,
                         'replay': v.replay}
    except core.HarnessError as e:
        status = 2
        ctx.harness_error = f'{e}'
        traceback.print_exc()
    except BaseException as e:  # noqa
        status = 2
        ctx.harness_error = f'{type(e).__name__}: {e}'
        traceback.print_exc()
    ctx.wall = time.time() - t0
    if args.partial:
        with open(args.partial, 'w') as f:
            json.dump(ctx.partial(), f)
    return status


def replay(args) -> int:
    mod = find_module(args.id)
    with open(args.replay) as f:
        rec = json.load(f)
    ctx = core.Ctx(property_id=mod.PROPERTY_ID, tier='quick', seed=0, shard=0, nshards=1)
    sub = mod.SUBCHECKS[rec['subcheck']]
    vs = ctx.execute_case(sub, rec['case'])
    unknown = [v for v in vs if not ctx.findings.is_known(v)]
    for v in vs:
        tag = 'known' if ctx.findings.is_known(v) else 'UNLISTED'
        print(f'  [{tag}] {v.signature}: {v.detail}')
    if unknown:
        print(f'VIOLATION property={mod.PROPERTY_ID} replay={args.replay}')
        return 1
    print(f'replay clean: property={mod.PROPERTY_ID} {args.replay}')
    return 0


def main(argv=None) -> int:
    ap = argparse.ArgumentParser()
    ap.add_argument('id')
    ap.add_argument('--tier', default=os.environ.get('VERIF_TIER', 'quick'), choices=['quick', 'thorough'])
    ap.add_argument('--seed', type=int, default=int(os.environ.get('VERIF_SEED', '1') or 1))
    ap.add_argument('--replay')
    ap.add_argument('--shards', type=int, default=None)
    ap.add_argument('--shard', type=int, default=None)
    ap.add_argument('--nshards', type=int, default=1)
    ap.add_argument('--partial')
    ap.add_argument('--only', default=None, help='comma list of sub-checks')
    ap.add_argument('--no-evidence', action='store_true')
    args = ap.parse_args(argv)
    here = os.path.dirname(os.path.dirname(os.path.abspath(__file__)))
    os.chdir(here)

    if args.replay:
        return replay(args)
    if args.shard is not None:
        return run_shard(args)

    mod = find_module(args.id)
    pid = mod.PROPERTY_ID
    ncpu = os.cpu_count() or 4
    nshards = args.shards or (min(8, ncpu) if args.tier == 'quick' else min(16, ncpu))
    nshards = max(1, min(nshards, getattr(mod, 'MAX_SHARDS', 64)))
    t0 = time.time()
    tmpd = tempfile.mkdtemp(prefix=f'vcheck-{pid}-')
    procs = []
    for i in range(nshards):
        part = os.path.join(tmpd, f'part{i}.json')
        # the last shard runs under `python -O` (assert statements stripped, __debug__ False): a library must not depend on them
        opt = ['-O'] if (i == nshards - 1 and nshards > 1 and not os.environ.get('VERIF_NO_PYOPT')) else []
        cmd = [sys.executable, *opt, '-W', 'ignore', '-m', 'pbt.runner', args.id, '--tier', args.tier,
               '--seed', str(args.seed), '--shard', str(i), '--nshards', str(nshards), '--partial', part]
        if args.only:
            cmd += ['--only', args.only]
        log = open(os.path.join(tmpd, f'log{i}.txt'), 'w')
        procs.append((subprocess.Popen(cmd, stdout=log, stderr=subprocess.STDOUT), part, log))
    parts = []
    statuses = []
    for i, (p, part, log) in enumerate(procs):
        st = p.wait()
        log.close()
        statuses.append(st)
        try:
            with open(part) as f:
                parts.append(json.load(f))
        except Exception:
            parts.append(None)
            with open(os.path.join(tmpd, f'log{i}.txt')) as f:
                sys.stderr.write(f'--- shard {i} (exit {st}) produced no partial; log:\n{f.read()[-4000:]}\n')
            statuses[-1] = 2 if st == 0 else st
    wall = time.time() - t0
    good = [p for p in parts if p]
    violation = next((p['violation'] for p in good if p.get('violation')), None)
    herr = [p.get('harness_error') for p in good if p.get('harness_error')]
    ev = core.merge_evidence(mod, args.tier, args.seed, good, wall, violation)
    ev['coverage']['process_environments'] = ['default interpreter flags'] + \
        ([f'python -O for shard {nshards - 1} of {nshards}'] if nshards > 1 and not os.environ.get('VERIF_NO_PYOPT') else [])
    if not args.no_evidence and good:
        os.makedirs('evidence', exist_ok=True)
        with open(f'evidence/{pid}.json', 'w') as f:
            json.dump(ev, f, indent=1, sort_keys=True, default=str)
    if os.environ.get('VERIF_COLLECT'):
        agg = {}
        for p_ in good:
            for sig, (n, d) in p_.get('collected', {}).items():
                a = agg.setdefault(sig, [0, d])
                a[0] += n
        for sig, (n, d) in sorted(agg.items()):
            print(f'COLLECTED {n:6d} {sig}\n         {d[:300]}')
    for line in core.known_lines(pid, good):
        print(line)
    cov = ev['coverage']
    print(f'{pid} tier={args.tier} seed={args.seed} shards={nshards} evaluations={cov["evaluations"]} '
          f'distinct_nontrivial={cov["distinct_nontrivial"]} wall={wall:.1f}s')
    for i, st in enumerate(statuses):
        if st not in (0, 1):
            with open(os.path.join(tmpd, f'log{i}.txt')) as f:
                sys.stderr.write(f'--- shard {i} exit {st}:\n{f.read()[-3000:]}\n')
    import shutil
    shutil.rmtree(tmpd, ignore_errors=True)
    if any(st not in (0, 1) for st in statuses) or herr:
        print(f'HARNESS-ERROR property={pid} {herr[:1]}')
        return 2
    if violation:
        print(f'  signature: {violation["signature"]}')
        print(f'  detail: {violation["detail"]}')
        print(f'VIOLATION property={pid} replay={violation["replay"]}')
        return 1
    return 0


if __name__ == '__main__':
    sys.exit(main())
