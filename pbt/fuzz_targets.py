"""
Coverage-guided fuzz targets (atheris / libFuzzer) with the SEMANTIC oracle inside the target.
Run as a subprocess by the runner (thorough tier):
    python -m pbt.fuzz_targets <c07|c06> --runs N --seed S --corpus DIR --stats FILE --replay-dir DIR
The first input byte selects the decoder / front-end and whether a consistent outer type-length is put in front of the
remaining bytes, so the fuzzer reaches logic behind the framing check.  State is rebuilt for every input.
"""
import argparse
import json
import os
import sys


def main():
    ap = argparse.ArgumentParser()
    ap.add_argument('target')
    ap.add_argument('--runs', type=int, default=20000)
    ap.add_argument('--seed', type=int, default=1)
    ap.add_argument('--corpus', required=True)
    ap.add_argument('--stats', required=True)
    ap.add_argument('--replay-dir', required=True)
    a = ap.parse_args()
    import atheris
    with atheris.instrument_imports(include=['ndn']):
        import ndn.encoding  # noqa
        import ndn.app  # noqa
        import ndn.appv2  # noqa
        import ndn.app_support.security_v2  # noqa
    from pbt import core
    from pbt.refs import tlv as T
    stats = {'execs': 0, 'keys': set(), 'known': {}, 'violation': None, 'samples': []}
    findings = core.Findings('C07' if a.target == 'c07' else 'C06')

    def finish(code):
        out = dict(stats, keys=sorted(stats['keys']))
        with open(a.stats, 'w') as f:
            json.dump(out, f)
        sys.stdout.flush()
        os._exit(code)

    if a.target == 'c07':
        from pbt.checks import c07_decoders as C
        decs = sorted(C.DECODERS)

        def one(data: bytes):
            if len(data) < 1:
                return
            sel = data[0]
            dec = decs[sel % len(decs)]
            body = bytes(data[1:])
            w = T.enc_tlv(C.OUTER[dec], body) if sel & 0x80 else body
            r = core.Result()
            kp = C._one(r, dec, w, 'fuzz', {})
            stats['execs'] += 1
            stats['keys'].add(f'{dec}:{kp}:{min(len(w) // 16, 8)}')
            if len(stats['samples']) < 3 and kp == 'both-accept':
                stats['samples'].append({'dec': dec, 'hex': w.hex()[:200]})
            for v in r.violations:
                e = findings.match(v)
                if e is not None:
                    stats['known'][e['signature']] = stats['known'].get(e['signature'], 0) + 1
                    continue
                case = {'fam': 'random', 'dec': dec, 'hex': w.hex()}
                os.makedirs(a.replay_dir, exist_ok=True)
                path = os.path.join(a.replay_dir, f'fuzz-{core.jhash(case)}.json')
                with open(path, 'w') as f:
                    json.dump({'property': 'C07', 'subcheck': 'inputs', 'signature': v.signature, 'detail': v.detail, 'case': case}, f, indent=1)
                stats['violation'] = {'signature': v.signature, 'detail': v.detail, 'replay': path, 'subcheck': 'fuzz'}
                finish(0)
    else:
        from pbt.checks import c06_receive as C
        targets = ['v2', 'legacy', 'udp-v2', 'udp-legacy']

        def one(data: bytes):
            if len(data) < 1:
                return
            sel = data[0]
            target = targets[sel % 4]
            body = bytes(data[1:])
            typ = [5, 6, 0x64, 0x64][(sel >> 2) % 4]
            w = T.enc_tlv(typ, body) if sel & 0x80 else body
            if not target.startswith('udp') and not C.framed_ok(w):
                return
            case = {'target': target, 'n_pending': (sel >> 4) % 3, 'n_handlers': (sel >> 5) % 2,
                    'inputs': [{'fam': 'random', 'hex': w.hex()}], 'mode': 'task' if sel & 0x40 else 'await'}
            r = C.run_robust(case)
            stats['execs'] += 1
            if r.key:
                stats['keys'].add(str(r.key)[:120])
            if len(stats['samples']) < 3:
                stats['samples'].append({'target': target, 'hex': w.hex()[:200]})
            for v in r.violations:
                e = findings.match(v)
                if e is not None:
                    stats['known'][e['signature']] = stats['known'].get(e['signature'], 0) + 1
                    continue
                os.makedirs(a.replay_dir, exist_ok=True)
                path = os.path.join(a.replay_dir, f'fuzz-{core.jhash(case)}.json')
                with open(path, 'w') as f:
                    json.dump({'property': 'C06', 'subcheck': f'robust-{target}', 'signature': v.signature, 'detail': v.detail,
                               'case': case}, f, indent=1)
                stats['violation'] = {'signature': v.signature, 'detail': v.detail, 'replay': path, 'subcheck': 'fuzz'}
                finish(0)

    def test_one_input(data):
        try:
            one(data)
        except SystemExit:
            raise
        except BaseException as e:  # harness bug: report as harness error, never as a violation
            import traceback
            stats['harness_error'] = f'{type(e).__name__}: {e}\n{traceback.format_exc()[-1500:]}'
            finish(0)
        if stats['execs'] >= a.runs:
            finish(0)

    argv = [sys.argv[0], f'-seed={a.seed or 1}', f'-runs={a.runs * 3}', '-max_len=600', '-timeout=60', '-rss_limit_mb=4000',
            '-print_final_stats=0', '-verbosity=0', a.corpus]
    atheris.Setup(argv, test_one_input)
    atheris.Fuzz()
    finish(0)


if __name__ == '__main__':
    main()
