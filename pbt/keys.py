"""Committed test keys, deterministic randomness, signer construction from JSON specs, reference verification."""
import hashlib
import json
import os

from Cryptodome.Hash import HMAC, SHA256
from Cryptodome.PublicKey import ECC, RSA
from Cryptodome.Signature import DSS, eddsa, pkcs1_15
import Cryptodome.Random
import Cryptodome.Random.random  # noqa
import Cryptodome.Math.Numbers  # noqa

from hypothesis import strategies as st

from ndn.encoding import Signer, SignatureType, KeyLocator
from ndn.security.signer import (DigestSha256Signer, Ed25519Signer, HmacSha256Signer, NullSigner,
                                 Sha256WithEcdsaSigner, Sha256WithRsaSigner)

ROOT = os.path.dirname(os.path.dirname(os.path.abspath(__file__)))
with open(os.path.join(ROOT, 'fixtures', 'keys.json')) as _f:
    KEYS = {k: {**v, 'priv': bytes.fromhex(v['priv']), 'pub': bytes.fromhex(v['pub'])} for k, v in json.load(_f).items()}

EC_KEYS = [k for k, v in KEYS.items() if v['kind'] == 'ec']
RSA_KEYS = [k for k, v in KEYS.items() if v['kind'] == 'rsa']
ED_KEYS = [k for k, v in KEYS.items() if v['kind'] == 'ed25519']


# ---- deterministic randomness for pycryptodome (ECDSA nonce, blinding) ------------------------
class _Drbg:
    def __init__(self):
        self.key = b'\x00'
        self.ctr = 0

    def reseed(self, seed: int):
        self.key = hashlib.sha256(b'verif-drbg' + str(seed).encode()).digest()
        self.ctr = 0

    def read(self, n: int) -> bytes:
        out = b''
        while len(out) < n:
            out += hashlib.sha256(self.key + self.ctr.to_bytes(8, 'big')).digest()
            self.ctr += 1
        return out[:n]

    # file-like API of Cryptodome.Random.new()
    def flush(self):
        pass

    def reinit(self):
        pass

    def close(self):
        pass


DRBG = _Drbg()
_installed = False


def install_drbg():
    """Route every pycryptodome random draw through DRBG (process-wide; checks run in their own processes)."""
    global _installed
    if _installed:
        return
    _installed = True
    Cryptodome.Random.new = lambda *a, **k: DRBG
    Cryptodome.Random.get_random_bytes = DRBG.read
    for modname in ('Cryptodome.Signature.DSS', 'Cryptodome.PublicKey.ECC', 'Cryptodome.PublicKey.RSA',
                    'Cryptodome.Signature.pkcs1_15', 'Cryptodome.Signature.eddsa', 'Cryptodome.Math._IntegerBase',
                    'Cryptodome.Math._IntegerGMP', 'Cryptodome.Math._IntegerCustom', 'Cryptodome.Math._IntegerNative',
                    'Cryptodome.Cipher.AES', 'Cryptodome.Protocol.KDF', 'Cryptodome.IO.PKCS8', 'Cryptodome.Util.Padding'):
        try:
            mod = __import__(modname, fromlist=['x'])
        except Exception:
            continue
        if hasattr(mod, 'get_random_bytes'):
            mod.get_random_bytes = DRBG.read
        if hasattr(mod, 'Random') and hasattr(mod.Random, 'new'):
            pass  # same module object as Cryptodome.Random, already patched


def pin(seed: int):
    install_drbg()
    DRBG.reseed(seed)


# ---- signer specs -------------------------------------------------------------------------------
class SyntheticSigner(Signer):
    """A legitimate user-defined Signer: reserves R bytes, writes r <= R bytes (public Signer ABC)."""

    def __init__(self, R, r, sig_type=200, kl_name=None, fill=0x5a):
        self.R, self.r, self.sig_type, self.kl_name, self.fill = R, r, sig_type, kl_name, fill
        self.seen = None

    def write_signature_info(self, signature_info):
        signature_info.signature_type = self.sig_type
        if self.kl_name is not None:
            signature_info.key_locator = KeyLocator()
            signature_info.key_locator.name = self.kl_name
        else:
            signature_info.key_locator = None

    def get_signature_value_size(self):
        return self.R

    def value(self):
        return bytes((self.fill + i) % 256 for i in range(self.r))

    def write_signature_value(self, wire, contents):
        self.seen = [bytes(c) for c in contents]
        wire[:self.r] = self.value()
        return self.r


class PinnedEcdsa(Sha256WithEcdsaSigner):
    """The library's ECDSA signer with the nonce source pinned just before each signature."""
    drbg_seed = 0

    def write_signature_value(self, wire, contents):
        pin(self.drbg_seed)
        return super().write_signature_value(wire, contents)


class Recording(Signer):
    """Wraps a real signer and records the exact bytes it was handed."""

    def __init__(self, inner):
        self.inner = inner
        self.seen = None
        self.buf_len = None

    def write_signature_info(self, signature_info):
        return self.inner.write_signature_info(signature_info)

    def get_signature_value_size(self):
        return self.inner.get_signature_value_size()

    def write_signature_value(self, wire, contents):
        self.seen = [bytes(c) for c in contents]
        self.buf_len = len(wire)
        return self.inner.write_signature_value(wire, contents)


def signer_spec(kinds=None, kl=None):
    """Hypothesis strategy for a JSON signer spec."""
    from . import strats as S
    kl = kl or S.name(0, 3, max_len=12, allow_digest_types=False)
    opts = {
        'none': st.just({'kind': 'none'}),
        'digest': st.just({'kind': 'digest'}),
        'null': st.just({'kind': 'null'}),
        'hmac': st.fixed_dictionaries({'kind': st.just('hmac'), 'kl': kl, 'hkey': st.one_of(st.binary(min_size=1, max_size=40),
                                                           st.sampled_from([32, 63, 64, 65, 128, 200]).flatmap(
                                                               lambda n: st.binary(min_size=n, max_size=n))).map(bytes.hex)}),
        'rsa': st.fixed_dictionaries({'kind': st.just('rsa'), 'kl': kl, 'key': st.sampled_from(RSA_KEYS)}),
        'ecdsa': st.fixed_dictionaries({'kind': st.just('ecdsa'), 'kl': kl, 'key': st.sampled_from(EC_KEYS),
                                        'drbg': st.integers(0, 2 ** 32)}),
        'ed25519': st.fixed_dictionaries({'kind': st.just('ed25519'), 'kl': kl, 'key': st.sampled_from(ED_KEYS)}),
        'synthetic': st.one_of(st.integers(0, 252), st.integers(0, 252),
                               st.sampled_from([253, 254, 255, 256, 257, 258, 300, 384, 512, 1000])).flatmap(lambda R: st.fixed_dictionaries({
            'kind': st.just('synthetic'), 'R': st.just(R),
            # (the library refuses, with an explicit error, to shrink a reserved SignatureValue of 253 octets or more)
            'r': st.one_of(st.just(R), st.just(0), st.integers(0, R), st.integers(max(0, R - 3), R)) if R < 253 else st.just(R),
            'kl': st.one_of(st.none(), kl), 'fill': st.integers(0, 255)})),
    }
    kinds = kinds or list(opts)
    weights = {'ecdsa': 4, 'synthetic': 3}
    pool = []
    for k in kinds:
        pool += [opts[k]] * weights.get(k, 1)
    return st.one_of(*pool)


def make_signer(spec, for_interest=False, record=True):
    """-> (signer or None, info) ; info has sig_type, kl (JSON name or None), reserved size."""
    from . import strats as S
    k = spec['kind']
    kl_comps = S.name_comps(spec['kl']) if spec.get('kl') is not None else None
    if k == 'none':
        return None
    if k == 'digest':
        s = DigestSha256Signer(for_interest)
    elif k == 'null':
        s = NullSigner()
    elif k == 'hmac':
        s = HmacSha256Signer(kl_comps, bytes.fromhex(spec['hkey']))
    elif k == 'rsa':
        s = Sha256WithRsaSigner(kl_comps, KEYS[spec['key']]['priv'])
    elif k == 'ecdsa':
        s = PinnedEcdsa(kl_comps, KEYS[spec['key']]['priv'])
        s.drbg_seed = spec['drbg']
    elif k == 'ed25519':
        s = Ed25519Signer(kl_comps, KEYS[spec['key']]['priv'])
    elif k == 'synthetic':
        return SyntheticSigner(spec['R'], spec['r'], 200, kl_comps, spec['fill'])
    else:
        raise ValueError(k)
    return Recording(s) if record else s


SIG_TYPE = {'digest': 0, 'rsa': 1, 'ecdsa': 3, 'hmac': 4, 'ed25519': 5, 'null': 200, 'synthetic': 200}


def ref_verify(spec, signed: bytes, sig: bytes) -> bool:
    """Reference verification straight on pycryptodome / hashlib (no library code)."""
    k = spec['kind']
    if k == 'digest':
        return hashlib.sha256(signed).digest() == sig
    if k == 'null':
        return sig == b''
    if k == 'hmac':
        return HMAC.new(bytes.fromhex(spec['hkey']), signed, digestmod=SHA256).digest() == sig
    if k == 'rsa':
        try:
            pkcs1_15.new(RSA.import_key(KEYS[spec['key']]['pub'])).verify(SHA256.new(signed), sig)
            return True
        except ValueError:
            return False
    if k == 'ecdsa':
        try:
            DSS.new(ECC.import_key(KEYS[spec['key']]['pub']), 'fips-186-3', 'der').verify(SHA256.new(signed), sig)
            return True
        except ValueError:
            return False
    if k == 'ed25519':
        try:
            eddsa.new(ECC.import_key(KEYS[spec['key']]['pub']), 'rfc8032').verify(signed, sig)
            return True
        except ValueError:
            return False
    if k == 'synthetic':
        return sig == bytes((spec['fill'] + i) % 256 for i in range(spec['r']))
    raise ValueError(k)
